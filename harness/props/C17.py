"""C17 — a failure is one well-formed located diagnostic after the output so far."""
import re
import core
import gens
import tie

RULE = ("every raisable error kind (expression-level and statement-level) x syntactic position {statement, condition, return "
        "expression, argument, index, loop iterable, destructure source, interpolation slot, object value, list item} x call depth "
        "0..3 (quick) / 0..5 (thorough) x {plain, inside loop, inside bare block, inside method}; every binding error (name twice, "
        "shape mismatch, non-bindable target, undefined assignment target) x binding position {:=, =, parameter, second parameter, "
        "method parameter, for value over list/object/second iteration, for pair over list/object/string/range} x pattern nesting "
        "0..3 x the same depths and contexts; failures under recursion through the same call site 2..40 levels deep (direct in 12 "
        "call styles, two sites, mutual 2/3, methods, callbacks, under/over helper chains, natural) with the whole trace planted: "
        "one line per active call with the position of that call, judged on the plain CLI; number-like text (digits continued by "
        "radix/exponent letters, `_`, `.`, quotes, non-ASCII, end of file) x 11 places: success or one located diagnostic, never a "
        "crash; plus every lexical and parse error kind; oracle = stderr grammar, planted call chain vs stack trace, planted "
        "prints vs stdout, no internal identifiers; non-trivial = distinct (error, position, depth, context)")
ASSUMPTIONS = ["a diagnostic raised inside an interpolation slot carries a second, slot-relative position inside its message "
               "(`l:c: l2:c2: msg`); the grammar accepts it as message text"]

EXPR_ERRORS = [
    ("undefined", "zz_undefined"), ("optypes", '1 + "a"'), ("list_oob", "[1][5]"), ("prop_missing", '{"a": 1}.zz'),
    ("overflow", "9223372036854775807 + 1"), ("div0", "1 / 0"), ("mod0", "1 % 0"), ("null_type", "null->type()"),
    ("call_nonfunc", "1()"), ("str_oob", '"a"[3]'), ("eq_types", "[1] == 1"), ("and_types", "true && 1"),
    ("range_type", '(1 .. "a")'), ("neg_index", "[1, 2][0 - 1]"), ("obj_index_type", '{"k": 1}[1]'),
    ("bad_range", "[1, 2, 3][2:1]"), ("interp_nonstr", '$"${1}"'), ("interp_undefined", '$"a${zz_undefined}"'),
    ("print_arity", "print(1, 2)"), ("arity", "two_params(1)"), ("utf8_len", '"é"[0:1]->len()'), ("utf8_print", 'print("é"[0:1])'),
    ("collect_outside", "[..ok_list]"), ("obj_collect_outside", "{..ok_obj}"), ("spread_nonlist", "[1..]"),
    ("spread_nonobj", "{1..}"), ("shorthand_notvar", "{1}"), ("type_fn_missing", "1->nope"), ("prop_on_nonobj", "1.k"),
    ("not_indexable", "null[0]"), ("not_range_indexable", "1[0:1]"), ("too_few_args", "rest_params()"),
    ("refeq_types", "1 === 1"), ("lt_types", '"a" < "b"'), ("prop_name_type", "{1: 2}"), ("this_undefined", "this"),
    ("method_this_print", "obj_with_print.p(1)"), ("nested_eq_types", '[[1, "a"]] == [[1, 2]]'),
    ("utf8_print_in_list", 'print(["first", "é"[0], "last"])'), ("utf8_print_in_object", 'print({"a": "first", "b": {"c": "é"[0:1]}})'),
    ("utf8_print_nested", 'print([1, [2, ["é"[1]]], 3])'),
    ("eq_types_inside_alias", "ok_nested == [ok_nested]"), ("eq_types_alias_in_object", '{"k": ok_nested} == {"k": [ok_nested]}'),
    ("ne_types_inside_alias", "[ok_nested, 1] != [[ok_nested], 1]"),
]

STMT_ERRORS = [
    ("assign_undefined", "zz_undefined = 1"), ("destruct_len", "[q1, q2] := [1]"), ("redeclare", "x_dup := 1\nx_dup := 2"),
    ("bind_literal", "1 := 2"), ("if_nonbool", "if 1 {\n    print(1)\n}"), ("while_nonbool", "while 1 {\n    print(1)\n}"),
    ("for_noniter", "for q in 5 {\n    print(1)\n}"), ("set_oob", "ok_list[5] = 1"), ("rset_oob", "ok_list[0:9] = [1]"),
    ("opassign_missing_prop", "ok_obj.nope += 1"), ("opassign_missing_index", 'ok_obj["nope"] += 1'), ("str_set", '"s"[0] = "a"'),
    ("dup_param", "fn g_dup(a, a) {\n    return 1\n}"), ("opassign_types", 'ok_int = 1\nok_int += "a"'),
    ("destruct_nonlist", "[q1] := 1"), ("destruct_nonobj", "{q1} := 1"), ("destruct_missing", "{nope} := ok_obj"),
    ("collect_notlast", "{..r1, a} := ok_obj"), ("name_twice", "[d1, d1] := [1, 2]"), ("spread_in_destruct", "[s1..] := [[1]]"),
    ("op_on_range", "ok_list[0:1] += [1]"), ("op_on_destruct", "[o1] += [1]"), ("assign_typeprop", "ok_int->type = 1"),
    ("bind_call", "ok_fn() = 1"), ("rset_mismatch", "ok_list[0:2] = [1]"), ("rset_nonindexable", "ok_list[0:1] = 1"),
    ("prop_assign_nonobj", "ok_int.k = 1"), ("index_assign_nonindexable", "ok_int[0] = 1"), ("range_start_after_end", "ok_list[2:1] = []"),
    ("param_literal", "fn g_lit(1) {\n    return 1\n}"), ("collect_too_few", "[c1, c2, ..c3] := [1]"),
    ("param_prop_spread", "fn g_ps({a..}) {\n    return 1\n}"), ("param_item_spread", "fn g_is([a..]) {\n    return 1\n}"),
    ("param_index", "fn g_pi(ok_list[0]) {\n    return 1\n}"), ("param_range_index", "fn g_pr(ok_list[0:1]) {\n    return 1\n}"),
    ("param_prop", "fn g_pp(ok_obj.a) {\n    return 1\n}"), ("prop_name_bad_utf8", 'v_bad := ok_obj["é"[0]]'),
    ("destructure_into_source_oob", "ok_pair := [1, 2]\n[ok_pair[2], ok_pair[0]] = ok_pair"),
    ("destructure_into_source_type", 'ok_pair := [1, 2]\n[ok_pair[0], ok_pair["x"]] = ok_pair'),
    ("destructure_into_source_then_fail", "ok_pair := [1, 2]\n[ok_pair[1], ok_pair[0]] = ok_pair\nv_u := ok_pair[0] + zz_undefined"),

    ("prop_name_bad_utf8_lit", 'v_bad2 := {"é"[1:2]: 1}'), ("destruct_key_bad_utf8", '{"é"[0]: q9} := ok_obj'),
]

POSITIONS = {
    "statement": lambda e: f"v_pos := {e}",
    "condition": lambda e: f"if ({e}) == 1 {{\n    print(\"in-cond\")\n}}",
    "argument": lambda e: f"ident({e})",
    "index": lambda e: f"print(ok_list[{e}])",
    "iterable": lambda e: f"for q_it in {e} {{\n    print(\"in-loop\")\n}}",
    "destructure": lambda e: f"[a_d, b_d] := {e}",
    "slot": lambda e: f'v_slot := $"x${{{e}}}y"' if '"' not in e else None,
    "object_value": lambda e: f'v_obj := {{"k": {e}}}',
    "list_item": lambda e: f"v_list := [0, {e}]",
    "return": lambda e: None,     # handled specially (must be inside a function)
    "op_rhs": lambda e: f"ok_acc += {e}",
    "spread_item": lambda e: f"v_sp := [0, ident([{e}])..]",
    "spread_arg": lambda e: f"ident(ident([{e}])..)",
    "spread_prop": lambda e: f'v_spo := {{"k": 0, ident({{"z": {e}}})..}}',
    "range_bound": lambda e: f"v_rb := ok_list[0:ident({e})]",
    "prop_name": lambda e: f"v_pn := {{ident({e}): 1}}",
    "call_callee": lambda e: f"ident({e})(1)" if e[0].isalpha() or e[0] in "([{" else None,
}

# a slice expression evaluates its start, then its end, then the sliced value (DESIGN.md Appendix A; C11 `eval_slice`): what
# its parts print before the failure belongs to stdout
SLICE_ERRORS = [
    ("slice_end_fails", "v_sl := tr_text()[tr_from():zz_undefined]", "from\n"),
    ("slice_value_undefined", "v_sl := zz_undefined[tr_from():tr_from()]", "from\nfrom\n"),
    ("slice_start_fails", "v_sl := tr_text()[1():tr_from()]", ""),
    ("slice_out_of_range", "v_sl := tr_text()[tr_from():9]", "from\ntext\n"),
]

PRELUDE = ('fn two_params(a, b) {\n    return a\n}\nfn rest_params(a, ..r) {\n    return a\n}\nfn ident(x) {\n    return x\n}\n'
           'fn ok_fn() {\n    return 1\n}\nok_list := [1, 2, 3]\nok_obj := {"a": 1}\nok_int := 1\nok_acc := 0\nok_nested := [[1]]\nfn tr_text() {\n    print("text")\n    return "abcdef"\n}\nfn tr_from() {\n    print("from")\n    return 1\n}\n'
           'obj_with_print := {"p": print}\nprint("p0")\n')

FIRST = re.compile(r"\At\.sd:(\d+):(\d+): (?:in '([^'\n]+)': )?([^\n]+)\n")
TRACE = re.compile(r"  t\.sd:(\d+):(\d+): in '([^'\n]+)'\n")
INTERNAL = re.compile(r"\b[A-Z][A-Za-z]+Failed\b|\b[A-Z][A-Za-z]+ \{ \w+:|\bSome\(|\bNone\b")


# statements that fail *inside* one more (anonymous method) call frame than the one they are written in
FRAME_STMT_ERRORS = [
    ("this_param_clash", 'm2 := {"f": fn (this) {\n    return 1\n}}\nm2.f(1)', "<unnamed function>"),
    ("method_body_error", 'm3 := {"g": fn () {\n    return zz_undefined\n}}\nm3.g()', "<unnamed function>"),
    ("param_pattern_mismatch", 'fn g_pm([pa, pb]) {\n    return pa\n}\ng_pm([3])', "g_pm"),
    ("param_object_pattern_missing", 'fn g_po({pa}) {\n    return pa\n}\ng_po({"other": 1})', "g_po"),
    ("param_pattern_mismatch_second_call", 'fn g_p2([pa, pb]) {\n    return pa\n}\ng_p2([1, 2])\ng_p2([3])', "g_p2"),
]


# how each function of the chain calls the next one (the position of the call inside its caller)
CALL_STYLES = {
    "stmt": "{f}()",
    "declare": "v_call := {f}()",
    "slot": 'v_call := $"a${{{f}()}}b"',
    "nested-slot": 'v_call := $"a${{$"<${{{f}()}}>"}}b"',
    "list-item": "v_call := [1, {f}()]",
    "argument": "v_call := ident({f}())",
    "condition": "if {f}() == 0 {{\n    ok_acc += 1\n}}",
    "operand": "v_call := 1 + {f}()",
    "index": "v_call := ok_list[{f}()]",
    "prop-value": 'v_call := {{"k": {f}()}}',
    "return": "return {f}()",
    "for-iterable": "for [k_i, v_i] in [{f}()] {{\n    ok_acc += 1\n}}",
}


def wrap(stmt_text, depth, ctxkind, is_return_expr=None, extra_frame=None, call_style="stmt"):
    """build the program; returns (src, expected_stdout, expected_frames) — frames: innermost-first list of function names
    that must appear in the trace (`in '<name>'`), and the name the first line must carry (or None)."""
    lines = []
    ind = lambda s, n: "\n".join(("    " * n + l) if l else l for l in s.split("\n"))
    body = stmt_text if is_return_expr is None else f"return {is_return_expr}"
    inner = 'print("p-inner")\n' + body + '\nprint("unreachable")'
    if ctxkind == "loop":
        inner = f"for [k_c, v_c] in [1, 2] {{\n{ind(inner, 1)}\n}}"
    elif ctxkind == "block":
        inner = f"{{\n{ind(inner, 1)}\n}}"
    elif ctxkind == "while":
        inner = f"i_c := 0\nwhile i_c < 2 {{\n    i_c += 1\n{ind(inner, 1)}\n}}"
    names = []
    if ctxkind == "method":
        # innermost is an anonymous function stored in an object and called as a method
        inner_fn = f'm_obj := {{"m": fn () {{\n{ind(inner, 1)}\n    return 0\n}}}}\nm_obj.m()'
        inner = inner_fn
        names.append("<unnamed function>")
    text = inner
    for d in range(depth, 0, -1):
        fname = f"f{d}"
        # the outermost call (from the root) is a plain statement; the calls between functions use the chosen style
        style = CALL_STYLES[call_style if d > 1 else "stmt"]
        text = f"fn {fname}() {{\n{ind(text, 1)}\n    return 0\n}}\n" + style.replace("{f}", fname).replace("{{", "{").replace("}}", "}")
        names.append(fname)
    # names so far: [<unnamed>?] + [f_depth .. f1] built inside-out: innermost first means reverse order of wrapping
    chain = ([f"f{d}" for d in range(1, depth + 1)]) + (["<unnamed function>"] if ctxkind == "method" else [])
    if extra_frame:
        chain = chain + [extra_frame]
    src = PRELUDE + text + '\nprint("unreachable-end")\n'
    expected_stdout = "p0\n" + "p-inner\n"
    # trace: one line per active call, innermost first, each naming the function containing the call, ending at <root>
    callers = ["<root>"] + chain[:-1] if chain else []
    expected_trace = list(reversed(callers))
    first_in = chain[-1] if chain else None
    return src, expected_stdout, expected_trace, first_in


def check_diag(r, expected_stdout, expected_trace, first_in, allow_extra_stdout=False):
    if r["status"] != "103":
        return f"expected exit status 103, got {r['status']}"
    if r["stdout"] != expected_stdout and not (allow_extra_stdout and r["stdout"].startswith(expected_stdout[:3])):
        return f"stdout is not the output of the prints completed before the failure: {r['stdout']!r} vs {expected_stdout!r}"
    e = r["stderr"]
    m = FIRST.match(e)
    if not m:
        return f"stderr does not start with `<path>:<line>:<col>: [in '<f>': ]<message>`: {e[:160]!r}"
    if int(m.group(1)) < 1:
        return f"line {m.group(1)} < 1: {e[:120]!r}"
    if INTERNAL.search(m.group(4)):
        return f"internal identifier in message: {m.group(4)[:160]!r}"
    if m.group(3) != first_in:
        return f"first line names function {m.group(3)!r}, expected {first_in!r}"
    rest = e[m.end():]
    if expected_trace:
        if not rest.startswith("Stacktrace:\n"):
            return f"no `Stacktrace:` after the first line: {rest[:120]!r}"
        tr = TRACE.findall(rest[len("Stacktrace:\n"):])
        consumed = "Stacktrace:\n" + "".join(f"  t.sd:{a}:{b}: in '{c}'\n" for a, b, c in tr)
        if consumed != rest:
            return f"malformed stack trace: {rest[:200]!r}"
        if [c for _, _, c in tr] != expected_trace:
            return f"stack trace names {[c for _, _, c in tr]}, expected {expected_trace}"
        if any(int(a) < 1 for a, _, _ in tr):
            return "stack trace line < 1"
    elif rest != "":
        return f"unexpected text after the diagnostic: {rest[:120]!r}"
    return None


NESTED_LOC = re.compile(r"\A(?:\d+:\d+: (?:in '[^'\n]+': )?)+")


def known_slot_call_shape(r, expected_stdout, expected_trace, first_in, slot_owner):
    """K6: a failure inside a function that was called from an interpolation slot.  The slot is parsed on its own when it is
    evaluated, so the diagnostic is anchored at the slot (first line: position of the slot, `in '<function containing the
    slot>'`, then the nested `l:c: in '<failing function>': message`), and the trace line of the call made in the slot carries
    its position relative to the slot text.  Everything else is still required: stdout, status 103, one well-formed first line
    with line >= 1 naming the function that contains the outermost slot, no internal identifiers, the failing function
    named in the nested part, and a trace that names exactly the expected callers, innermost first, ending at <root>."""
    if r["status"] != "103" or r["stdout"] != expected_stdout:
        return False
    m = FIRST.match(r["stderr"])
    if not m or int(m.group(1)) < 1 or INTERNAL.search(m.group(4)) or m.group(3) != slot_owner:
        return False
    n = NESTED_LOC.match(m.group(4))
    if not n or (first_in is not None and f"in '{first_in}': " not in n.group(0)):
        return False
    rest = r["stderr"][m.end():]
    if not rest.startswith("Stacktrace:\n"):
        return False
    tr = TRACE.findall(rest[len("Stacktrace:\n"):])
    consumed = "Stacktrace:\n" + "".join(f"  t.sd:{a}:{b}: in '{c}'\n" for a, b, c in tr)
    return consumed == rest and [c for _, _, c in tr] == expected_trace and all(int(a) >= 1 for a, _, _ in tr)


# ---------------------------------------------------------------------------------------------------------------------
# failures under recursion: the same call site is active many times.  The generator plants the call chain — which call
# site of which function made each active call — so the whole trace is predicted: one line per active call, innermost first,
# each with the position of that call (the start of the call expression, marked «x» in the template) and the name of the
# function that contains it, ending at <root>.  No interpolation slots anywhere (K1/K6).

REC_FAILS = [
    ("undefined", "v_u := zz_undefined"), ("optypes", 'v_u := 1 + "a"'), ("destruct_len", "[q1, q2] := [1]"),
    ("div0", "v_u := 1 / 0"), ("assign_undefined", "zz_undefined = 1"), ("prop_missing", 'v_u := {"a": 1}.zz'),
]

# how the recursive call is written inside its function ({c} = the marked call expression)
REC_STYLES = {
    "return": "return {c}",
    "stmt": "{c}\nreturn 0",
    "declare": "v_r := {c}\nreturn v_r",
    "operand": "return 1 + {c}",
    "argument": "return ident({c})",
    "list-item": "v_r := [1, {c}]\nreturn 0",
    "prop-value": 'v_r := {{"k": {c}}}\nreturn 0',
    "condition": "if {c} == 0 {{\n    return 1\n}}\nreturn 0",
    "in-for": "for [k_i, v_i] in [7] {{\n    {c}\n}}\nreturn 0",
    "in-while": "i_w := 0\nwhile i_w < 1 {{\n    i_w += 1\n    v_r := {c}\n}}\nreturn 0",
    "for-iterable": "for [k_i, v_i] in [{c}] {{\n    ok_acc += 1\n}}\nreturn 0",
    "index": "return ok_list[{c}]",
}

REC_PRELUDE = 'fn ident(x) {\n    return x\n}\nok_list := [1, 2, 3]\nok_acc := 0\nprint("p0")\n'


def _ind(s, n):
    return "\n".join(("    " * n + l) if l else l for l in s.split("\n"))


def unmark(text):
    """`«x»` (x = one character) marks the offset of what follows it: returns (clean text, {x: (line, col)})"""
    import lib_syntax as LS
    marks, clean, i = {}, [], 0
    n = 0
    while i < len(text):
        if text[i] == "«":
            marks[text[i + 1]] = n
            i += 3
        else:
            clean.append(text[i])
            n += 1
            i += 1
    clean = "".join(clean)
    return clean, {k: LS.pos_of(clean, v) for k, v in marks.items()}


def _base(fail):
    return 'if n == 0 {\n    print("p-inner")\n' + _ind(fail, 1) + "\n}\n"


def rec_shapes():
    """name -> builder(n, fail) -> (marked source, [(mark, caller name)] innermost first, name on the first line, stdout)"""
    sh = {}

    def direct(style):
        def b(n, fail):
            body = _base(fail) + "v_done := ident(n)\n" + REC_STYLES[style].replace("{c}", "«A»rec(n - 1)").replace("{{", "{").replace("}}", "}")
            src = REC_PRELUDE + "fn rec(n) {\n" + _ind(body, 1) + "\n}\n" + f"«R»rec({n})\nprint(\"unreachable\")\n"
            return src, [("A", "rec")] * n + [("R", "<root>")], "rec", "p0\np-inner\n"
        return b
    for st in REC_STYLES:
        sh["direct:" + st] = direct(st)

    def counting(n, fail):      # every level prints on the way down: all of it is output completed before the failure
        body = "print(n)\n" + _base(fail) + "return «A»rec(n - 1)"
        src = REC_PRELUDE + "fn rec(n) {\n" + _ind(body, 1) + "\n}\n" + f"v_top := [«R»rec({n})]\n"
        return src, [("A", "rec")] * n + [("R", "<root>")], "rec", "p0\n" + "".join(f"{k}\n" for k in range(n, -1, -1)) + "p-inner\n"
    sh["direct:printing-levels"] = counting

    def mutual(k):
        names = ["ma", "mb", "mc"][:k]
        def b(n, fail):
            src = REC_PRELUDE
            for i, f in enumerate(names):
                nxt = names[(i + 1) % k]
                src += f"fn {f}(n) {{\n" + _ind(_base(fail) + f"return «{i}»{nxt}(n - 1)", 1) + "\n}\n"
            src += f"«R»ma({n})\n"
            chain = [names[i % k] for i in range(n + 1)]                # chain[i] runs with n - i
            tr = [(str(names.index(chain[i - 1])), chain[i - 1]) for i in range(n, 0, -1)] + [("R", "<root>")]
            return src, tr, chain[-1], "p0\np-inner\n"
        return b
    sh["mutual:2"] = mutual(2)
    sh["mutual:3"] = mutual(3)

    def method_this(n, fail):
        src = REC_PRELUDE + 'o_rec := {"tag": 1, "m": fn (n) {\n' + _ind(_base(fail) + "return «A»this.m(n - 1)", 1) + "\n}}\n" + f"«R»o_rec.m({n})\n"
        return src, [("A", "<unnamed function>")] * n + [("R", "<root>")], "<unnamed function>", "p0\np-inner\n"
    sh["method:this"] = method_this

    def method_global(n, fail):
        src = REC_PRELUDE + 'o_rec := {"m": fn (n) {\n' + _ind(_base(fail) + 'v_r := 1 + «A»o_rec["m"](n - 1)\nreturn v_r', 1) + "\n}}\n" + f"v_top := «R»o_rec.m({n})\n"
        return src, [("A", "<unnamed function>")] * n + [("R", "<root>")], "<unnamed function>", "p0\np-inner\n"
    sh["method:through-global"] = method_global

    def method_named(n, fail):      # a named function stored in an object and called as a method of it
        src = (REC_PRELUDE + "fn walk(n) {\n" + _ind(_base(fail) + "return «A»this.w(n - 1)", 1) + "\n}\n" + 'o_w := {"w": walk}\n' + f"«R»o_w.w({n})\n")
        return src, [("A", "walk")] * n + [("R", "<root>")], "walk", "p0\np-inner\n"
    sh["method:named-function"] = method_named

    def anon_var(n, fail):
        src = REC_PRELUDE + "rec_v := fn (n) {\n" + _ind(_base(fail) + "return «A»rec_v(n - 1)", 1) + "\n}\n" + f"«R»rec_v({n})\n"
        return src, [("A", "<unnamed function>")] * n + [("R", "<root>")], "<unnamed function>", "p0\np-inner\n"
    sh["anonymous:variable"] = anon_var

    def cb_self(n, fail):
        src = REC_PRELUDE + "fn cb(f, n) {\n" + _ind(_base(fail) + "return «A»f(f, n - 1)", 1) + "\n}\n" + f"«R»cb(cb, {n})\n"
        return src, [("A", "cb")] * n + [("R", "<root>")], "cb", "p0\np-inner\n"
    sh["callback:self-passing"] = cb_self

    def cb_apply(n, fail):
        src = (REC_PRELUDE + "fn apply(f, n) {\n    return «B»f(n)\n}\n" + "fn rec(n) {\n" + _ind(_base(fail) + "return «A»apply(rec, n - 1)", 1) + "\n}\n" + f"«R»rec({n})\n")
        return src, [("B", "apply"), ("A", "rec")] * n + [("R", "<root>")], "rec", "p0\np-inner\n"
    sh["callback:through-apply"] = cb_apply

    def cb_each(n, fail):       # the callback is called from a loop inside the helper
        src = (REC_PRELUDE + "fn each(xs, f) {\n    for [i_e, x_e] in xs {\n        «B»f(x_e)\n    }\n    return 0\n}\n" + "fn rec(n) {\n" + _ind(_base(fail) + "return «A»each([n - 1], rec)", 1) + "\n}\n" + f"«R»rec({n})\n")
        return src, [("B", "each"), ("A", "rec")] * n + [("R", "<root>")], "rec", "p0\np-inner\n"
    sh["callback:from-loop-in-helper"] = cb_each

    def cb_anon(n, fail):       # an anonymous callback written at the call, recursing through the named function
        body = _base(fail) + "return «A»apply(fn (m) {\n    return «C»rec(m)\n}, n - 1)"
        src = (REC_PRELUDE + "fn apply(f, n) {\n    return «B»f(n)\n}\n" + "fn rec(n) {\n" + _ind(body, 1) + "\n}\n" + f"«R»rec({n})\n")
        return src, [("C", "<unnamed function>"), ("B", "apply"), ("A", "rec")] * n + [("R", "<root>")], "rec", "p0\np-inner\n"
    sh["callback:anonymous-at-the-call"] = cb_anon

    def parity(n, fail):        # two call sites, taken alternately
        body = _base(fail) + "if n % 2 == 0 {\n    return «A»rec(n - 1)\n}\nreturn «B»rec(n - 1)"
        src = REC_PRELUDE + "fn rec(n) {\n" + _ind(body, 1) + "\n}\n" + f"«R»rec({n})\n"
        return src, [("A" if k % 2 == 0 else "B", "rec") for k in range(1, n + 1)] + [("R", "<root>")], "rec", "p0\np-inner\n"
    sh["direct:two-sites-alternating"] = parity

    def halves(n, fail):        # two call sites, each in a run: the upper half of the descent through one, the lower through the other
        h = n // 2
        body = _base(fail) + f"if n > {h} {{\n    return «A»rec(n - 1)\n}}\nreturn «B»rec(n - 1)"
        src = REC_PRELUDE + "fn rec(n) {\n" + _ind(body, 1) + "\n}\n" + f"«R»rec({n})\n"
        return src, [("A" if k > h else "B", "rec") for k in range(1, n + 1)] + [("R", "<root>")], "rec", "p0\np-inner\n"
    sh["direct:two-sites-in-runs"] = halves

    def then_helpers(n, fail):  # the recursion bottoms out in a chain of other functions; the last one fails
        src = (REC_PRELUDE + "fn g2() {\n    print(\"p-inner\")\n" + _ind(fail, 1) + "\n    return 0\n}\nfn g1() {\n    return «D»g2()\n}\n"
               "fn rec(n) {\n    if n == 0 {\n        return «C»g1()\n    }\n    return «A»rec(n - 1)\n}\n" + f"«R»rec({n})\n")
        return src, [("D", "g1"), ("C", "rec")] + [("A", "rec")] * n + [("R", "<root>")], "g2", "p0\np-inner\n"
    sh["direct:then-helper-chain"] = then_helpers

    def under_helpers(n, fail):
        src = (REC_PRELUDE + "fn rec(n) {\n" + _ind(_base(fail) + "return «A»rec(n - 1)", 1) + "\n}\n"
               f"fn h2() {{\n    return «H»rec({n})\n}}\nfn h1() {{\n    v_h := «G»h2()\n    return v_h\n}}\n«R»h1()\n")
        return src, [("A", "rec")] * n + [("H", "h2"), ("G", "h1"), ("R", "<root>")], "rec", "p0\np-inner\n"
    sh["direct:under-helper-chain"] = under_helpers

    def nested_decl(n, fail):   # the recursive function is declared inside another function
        inner = "fn rec(n) {\n" + _ind(_base(fail) + "return «A»rec(n - 1)", 1) + "\n}\n" + f"return «H»rec({n})"
        src = REC_PRELUDE + "fn outer() {\n" + _ind(inner, 1) + "\n}\n«R»outer()\n"
        return src, [("A", "rec")] * n + [("H", "outer"), ("R", "<root>")], "rec", "p0\np-inner\n"
    sh["direct:declared-in-function"] = nested_decl

    def after_success(n, fail): # the same recursion first runs to completion, then fails on a second descent
        body = 'if n == 0 {\n    if bad {\n        print("p-inner")\n' + _ind(fail, 2) + "\n    }\n    return 0\n}\nreturn «A»rec(n - 1, bad)"
        src = REC_PRELUDE + "fn rec(n, bad) {\n" + _ind(body, 1) + "\n}\n" + f"v_ok := rec({n + 3}, false)\nprint(v_ok)\n«R»rec({n}, true)\n"
        return src, [("A", "rec")] * n + [("R", "<root>")], "rec", "p0\n0\np-inner\n"
    sh["direct:after-a-completed-descent"] = after_success

    def second_descent(n, fail):    # each level first makes a call that returns, then recurses: returned calls leave no line
        body = _base(fail) + "v_s := side(n)\nreturn «A»rec(n - 1)"
        src = (REC_PRELUDE + "fn side(n) {\n    if n == 0 {\n        return 0\n    }\n    return side(n - 1)\n}\n" + "fn rec(n) {\n" + _ind(body, 1) + "\n}\n" + f"«R»rec({n})\n")
        return src, [("A", "rec")] * n + [("R", "<root>")], "rec", "p0\np-inner\n"
    sh["direct:beside-completed-recursions"] = second_descent

    def linked(n, fail):        # the walk does not stop at the null that ends the list (`fail` unused: the failure is natural)
        src = ('fn sum(node) {\n    return node.value + «A»sum(node.next)\n}\nfn build(n) {\n    node := null\n    for [_, i] in 0 .. n {\n'
               '        node = {"value": i, "next": node}\n    }\n    return node\n}\nprint("p0")\n' + f"print(«R»sum(build({n})))\n")
        return src, [("A", "sum")] * n + [("R", "<root>")], "sum", "p0\n"
    sh["natural:walk-past-the-end"] = linked

    def countdown_index(n, fail):   # natural: the recursion indexes a list one past its end at the bottom
        src = ('fn at(xs, i) {\n    if xs[i] == 0 {\n        return 0\n    }\n    return 1 + «A»at(xs, i + 1)\n}\nprint("p0")\n'
               + "xs := [" + ", ".join(["1"] * n) + "]\n" + "v_n := «R»at(xs, 0)\n")
        return src, [("A", "at")] * n + [("R", "<root>")], "at", "p0\n"
    sh["natural:index-past-the-end"] = countdown_index
    return sh


def check_rec(r, marks, frames, first_in, expected_stdout, nlines):
    if r["status"] != "103":
        return f"expected exit status 103, got {r['status']}"
    if r["stdout"] != expected_stdout:
        return f"stdout is not the output of the prints completed before the failure: {r['stdout'][-120:]!r} vs {expected_stdout[-120:]!r}"
    e = r["stderr"]
    m = FIRST.match(e)
    if not m:
        return f"stderr does not start with `<path>:<line>:<col>: [in '<f>': ]<message>`: {e[:160]!r}"
    if not 1 <= int(m.group(1)) <= nlines:
        return f"line {m.group(1)} does not point into the script ({nlines} lines)"
    if INTERNAL.search(m.group(4)):
        return f"internal identifier in message: {m.group(4)[:160]!r}"
    if m.group(3) != first_in:
        return f"first line names function {m.group(3)!r}, expected {first_in!r}"
    want = "Stacktrace:\n" + "".join(f"  t.sd:{marks[k][0]}:{marks[k][1]}: in '{name}'\n" for k, name in frames)
    rest = e[m.end():]
    if rest != want:
        got_lines, want_lines = rest.split("\n"), want.split("\n")
        i = next((i for i, (a, b) in enumerate(zip(got_lines, want_lines)) if a != b), min(len(got_lines), len(want_lines)))
        return (f"the stack trace is not one line per active call: {len(frames)} calls are active, the text after the first line has "
                f"{max(0, len(got_lines) - 2)} lines after `Stacktrace:`; first difference at trace line {i}: got "
                f"{got_lines[i] if i < len(got_lines) else '<end>'!r}, the planted call chain gives {want_lines[i] if i < len(want_lines) else '<end>'!r}")
    return None


def recursion_cases(tier):
    depths = list(range(2, 41)) if tier == "thorough" else [2, 3, 4, 5, 6, 8, 11, 16, 25, 40]
    out = []
    for si, (name, build) in enumerate(sorted(rec_shapes().items())):
        for di, n in enumerate(depths):
            fails = REC_FAILS if tier == "thorough" and n in (2, 4, 5, 40) else [REC_FAILS[(si + di) % len(REC_FAILS)]]
            if name.startswith("natural:"):
                fails = fails[:1]
            for fname, fail in fails:
                marked, frames, first_in, stdout = build(n, fail)
                src, marks = unmark(marked)
                out.append(((name, n, fname if not name.startswith("natural:") else "natural"), src, marks, frames, first_in, stdout))
    return out


def run_recursion(ctx, model_ok):
    cases = recursion_cases(ctx.tier)
    srcs = [c[1] for c in cases]
    # the trace is rendered by the command-line driver: the oracle judges the plain CLI; the hook and the model are tied (leg B)
    cli = core.cli_batch(srcs)
    ctx.count("recursion_traces:cli", len(srcs))
    bad = []
    for (key, src, marks, frames, first_in, stdout), r in zip(cases, cli):
        ctx.nontrivial(("recursion",) + key)
        ctx.dist("recursion-depth:" + ("2-5" if key[1] <= 5 else "6-16" if key[1] <= 16 else "17-40"))
        why = check_rec(r, marks, frames, first_in, stdout, src.count("\n"))
        if why:
            bad.append((key, src, why, r))
    bad.sort(key=lambda b: (b[0][1], len(b[1])))
    seen = set()
    for key, src, why, r in bad:
        sig = (key[0].split(":")[0], re.sub(r"\d+", "N", why)[:50])
        if sig in seen or len(seen) >= 6:
            continue
        seen.add(sig)
        ctx.violation("failure under recursion: " + why, src, {"case": str(key), "cli": r, "failing_cases_in_stream": len(bad)})
    impl, dis = tie.run(ctx, srcs, "recursion_traces", model_ok)
    explained = {b[1] for b in bad}
    tie.report_disagreements(ctx, [d for d in dis if d[0] not in explained], "recursion_traces")
    k = len(cases) // 2
    ctx.sample({"case": str(cases[k][0]), "src": cases[k][1][-300:], "cli_stderr": cli[k]["stderr"][:400]})


# ---------------------------------------------------------------------------------------------------------------------
# binding errors in every binding position.  A pattern that cannot be bound to its value — a name twice, a shape mismatch, a
# target that is not bindable, (assignment) a name that is not defined — written as the target of `:=`, of `=`, as a parameter
# (named function, second parameter, anonymous method), as the target of a `for` (the value of the pair, over a list / an
# object / at the second iteration; the pair itself), at nesting depth 0..3 inside a larger pattern, inside the call chains
# and contexts of `wrap`.  (pattern, failing value, a value the pattern accepts or None)
BIND_ERRORS = [
    ("dup_pair", "[d1, d1]", "[1, 2]", None),
    ("dup_object", '{"a": d1, "b": d1}', '{"a": 1, "b": 2}', None),
    ("dup_mixed", '[d1, {"a": d1}]', '[1, {"a": 2}]', None),
    ("dup_deep", "[d1, [q1, [d1]]]", "[1, [2, [3]]]", None),
    ("dup_collect", "[d1, ..d1]", "[1, 2]", None),
    ("dup_object_collect", '{"a": d1, ..d1}', '{"a": 1, "b": 2}', None),
    ("len_short", "[q1, q2]", "[1]", "[1, 2]"),
    ("len_long", "[q1]", "[1, 2]", "[1]"),
    ("len_empty", "[q1]", "[]", "[1]"),
    ("nonlist_int", "[q1]", "1", "[1]"),
    ("nonlist_null", "[q1, q2]", "null", "[1, 2]"),
    ("nonlist_object", "[q1]", '{"q1": 1}', "[1]"),
    ("nonobject_list", "{q1}", "[1]", '{"q1": 1}'),
    ("nonobject_null", "{q1}", "null", '{"q1": 1}'),
    ("missing_shorthand", "{q1}", '{"a": 1}', '{"q1": 1}'),
    ("missing_named", '{"k": q1}', '{"a": 1}', '{"k": 1}'),
    ("collect_too_few", "[q1, q2, ..q3]", "[1]", "[1, 2]"),
    ("inner_len", "[q1, [q2, q3]]", "[1, [2]]", "[1, [2, 3]]"),
    ("inner_nonobject", '[q1, {"k": q2}]', "[1, 2]", '[1, {"k": 2}]'),
    ("literal_target", "[q1, 1]", "[1, 1]", None),
    ("call_target", "[q1, ok_fn()]", "[1, 1]", None),
]
# only in assignment: a leaf that is not defined
ASSIGN_ERRORS = [
    ("undefined_name", "zz_undefined", "1"), ("undefined_in_list", "[q1, zz_undefined]", "[1, 2]"),
    ("undefined_in_object", '{"a": zz_undefined}', '{"a": 1}'), ("undefined_deep", "[q1, [q2, {\"k\": zz_undefined}]]", '[1, [2, {"k": 3}]]'),
    ("undefined_collect", "[q1, ..zz_undefined]", "[1, 2]"),
]
BIND_NESTS = [
    lambda p, v: (p, v),
    lambda p, v: (f"[n1, {p}]", f"[0, {v}]"),
    lambda p, v: (f'[n1, {{"k": {p}}}]', f'[0, {{"k": {v}}}]'),
    lambda p, v: (f'{{"a": [{p}, n2], "b": n1}}', f'{{"a": [{v}, 0], "b": 0}}'),
]
BIND_NAMES = ["d1", "q1", "q2", "q3", "n1", "n2"]
_FN_BODY = "{\n    print(\"in-function\")\n    return 0\n}"


def _validated_at_definition(kind):
    # the parameter list of a `fn name(…)` declaration is validated by the declaration (DESIGN.md C20 `dup_param`, `param_rejects_match_source`):
    # a repeated name or a target that is not bindable fails there, in the function that contains the definition
    return kind.startswith("dup_") or kind in ("literal_target", "call_target")


def binders(kind, p, v, good):
    """(binder name, statement text, what it prints before failing, extra innermost frame or None)"""
    out = [("declare", f"{p} := {v}", "", None),
           ("assign", "".join(f"{n} := 0\n" for n in BIND_NAMES) + f"{p} = {v}", "", None)]
    at_def = _validated_at_definition(kind)
    out.append(("parameter", f"fn g_b({p}) {_FN_BODY}\ng_b({v})", "", None if at_def else "g_b"))
    out.append(("second-parameter", f"fn g_b(p0, {p}, ..p9) {_FN_BODY}\ng_b(0, {v}, 5)", "", None if at_def else "g_b"))
    out.append(("method-parameter", f'm_b := {{"m": fn ({p}) {_FN_BODY}}}\nm_b.m({v})', "", "<unnamed function>"))     # a function literal is not validated: fails at the call
    body = "{\n    print(\"in-body\")\n}"
    out.append(("for-value:list", f"for [k_b, {p}] in [{v}] {body}", "", None))
    out.append(("for-value:object", f'for [k_b, {p}] in {{"key": {v}}} {body}', "", None))
    if good is not None:
        out.append(("for-value:second-iteration", f"for [k_b, {p}] in [{good}, {v}] {body}", "in-body\n", None))
        out.append(("parameter:second-call", f"fn g_b({p}) {_FN_BODY}\ng_b({good})\ng_b({v})", "in-function\n", "g_b"))
    out.append(("for-item", f"for {p} in [0, 1] {body}", "", None) if kind in ("dup_pair", "dup_collect", "literal_target", "call_target") else None)
    return [b for b in out if b]


# targets of a `for` that cannot take the [key, value] pair itself
FOR_PAIR_ERRORS = [
    ("for_pair_dup", "[d1, d1]"), ("for_pair_dup_collect", "[d1, ..d1]"), ("for_pair_too_many", "[q1, q2, q3]"), ("for_pair_too_few", "[q1]"),
    ("for_pair_object", "{q1}"), ("for_pair_key_pattern", "[[q1], q2]"), ("for_pair_value_pattern", "[q1, [q2]]"), ("for_pair_literal", "[q1, 1]"),
    ("for_pair_dup_inner", "[d1, [d1]]"), ("for_pair_empty", "[]"),
]
FOR_ITERABLES = [("list", "[7]"), ("object", '{"key": 7}'), ("string", '"ab"'), ("range", "(3 .. 5)"), ("list-of-list", "[[7, 8]]")]


def binding_cases(tier, maxd):
    out = []
    ctxkinds = ["plain", "loop", "block", "method", "while"]

    def keep(kind, binder, nest, depth, ck):
        if tier == "thorough" or (depth <= 1 and ck == "plain" and nest <= 1):
            return True
        return (len(kind) + 3 * len(binder) + 5 * nest + 7 * depth + len(ck)) % 8 == 0

    def add(kind, binder, nest, depth, ck, st, printed, frame):
        src, o, tr, fi = wrap(st, depth, ck, extra_frame=frame)
        out.append((("bind:" + kind, "binder:" + binder + f"/nest{nest}", depth, ck), src, o + printed, tr, fi))

    for kind, p0, v0, g0 in BIND_ERRORS:
        for nest, mk in enumerate(BIND_NESTS):
            p, v = mk(p0, v0)
            good = mk(p0, g0)[1] if g0 is not None else None
            for binder, st, printed, frame in binders(kind, p, v, good):
                for depth in range(0, maxd + 1):
                    for ck in ctxkinds:
                        if keep(kind, binder, nest, depth, ck):
                            add(kind, binder, nest, depth, ck, st, printed, frame)
    for kind, p0, v0 in ASSIGN_ERRORS:
        for nest, mk in enumerate(BIND_NESTS):
            p, v = mk(p0, v0)
            st = "".join(f"{n} := 0\n" for n in BIND_NAMES) + f"{p} = {v}"
            for depth in range(0, maxd + 1):
                for ck in ctxkinds:
                    if keep(kind, "assign", nest, depth, ck):
                        add(kind, "assign", nest, depth, ck, st, "", None)
    for kind, p in FOR_PAIR_ERRORS:
        for itname, it in FOR_ITERABLES:
            if kind == "for_pair_value_pattern" and itname == "list-of-list":
                continue        # the value is a list there
            st = f"for {p} in {it} {{\n    print(\"in-body\")\n}}"
            for depth in range(0, maxd + 1):
                for ck in ctxkinds:
                    if keep(kind, itname, 0, depth, ck):
                        add(kind, "for-pair:" + itname, 0, depth, ck, st, "", None)
    return out


# ---------------------------------------------------------------------------------------------------------------------
# number-like text: every way a run of digits can continue (a letter as in a radix or exponent prefix, `_`, `.`, a quote, a
# non-ASCII letter or digit, nothing, the end of the file) x the place it is written in.  Whether such a text is a literal, two
# tokens or a lexical error is not this property's business; what it says is: the script either succeeds (all planted prints,
# nothing on stderr, status 0) or fails with one located diagnostic and status 103, after a prefix of the planted prints.
NUM_HEADS = ["0", "1", "00", "0x", "0X", "0b", "0o", "0e", "1e", "1_", "0_", "0x_", "0x1", "0xf", "0b1", "1e5", "12", "0d", "0h", "1x",
             "9223372036854775807", "9223372036854775808", "99999999999999999999", "0x7fffffffffffffff", "0xffffffffffffffff",
             "0x10000000000000000", "0x_f", "0x__", "1__2", "_1", "0_x"]
NUM_TAILS = ["", "_", "g", "x", "z", "G", "1", "f", "F", ".", "..", ".5", " ", ")", "é", "٣", "²", '"s"', "'", '$"s"', "#", "\\", "@", "-", "e+"]
# (a quote that opens a literal running over the line break is left out: the `unexpected '<token>'` message quotes the token's
# text raw, line break included, so the rest of the message continues on the next line — reported, not judged here)
NUM_PLACES = {
    "declare": "v_n := {t}",
    "statement": "{t}",
    "argument": "v_n := ident({t})",
    "list-item": "v_n := [1, {t}, 2]",
    "object-value": 'v_n := {{"k": {t}}}',
    "index": "v_n := ok_list[{t}]",
    "range-bound": "v_n := ok_list[0:{t}]",
    "operand": "v_n := 1 + {t} + 1",
    "condition": "if {t} == 0 {{\n    ok_acc += 1\n}}",
    "in-function-never-called": "fn never() {{\n    return {t}\n}}",
    "last-text-of-file": None,
}


def literal_cases(tier):
    out = []
    pre = 'fn ident(x) {\n    return x\n}\nok_list := [1, 2, 3]\nok_acc := 0\nprint("p0")\n'
    for hi, h in enumerate(NUM_HEADS):
        for ti, t in enumerate(NUM_TAILS):
            for pi, (place, tmpl) in enumerate(NUM_PLACES.items()):
                if tier != "thorough" and (hi + 2 * ti + 3 * pi) % 5 != 0 and not (place in ("declare", "last-text-of-file") and t in ("", "_", "g", "z")):
                    continue
                if tmpl is None:
                    src = pre + "v_n := " + h + t          # no line break after it
                    prints = ["p0\n"]
                else:
                    src = pre + tmpl.replace("{t}", h + t).replace("{{", "{").replace("}}", "}") + '\nprint("p1")\n'
                    prints = ["p0\n", "p1\n"]
                out.append(((h, t, place), src, prints))
    return out


def check_literal(r, src, prints):
    full = "".join(prints)
    if r["status"] == "0":
        if r["stderr"] != "":
            return f"a successful script wrote to stderr: {r['stderr'][:120]!r}"
        if r["stdout"] != full:
            return f"status 0 but stdout {r['stdout']!r} is not the planted prints {full!r}"
        return None
    if r["status"] != "103":
        return f"the script neither succeeded nor failed with a diagnostic and status 103: status {r['status']}, stderr starts {r['stderr'][:160]!r}"
    if r["stdout"] not in ["".join(prints[:k]) for k in range(len(prints) + 1)]:
        return f"stdout {r['stdout']!r} is not the output of the prints completed before the failure"
    m = FIRST.match(r["stderr"])
    if not m:
        return f"stderr does not start with `<path>:<line>:<col>: <message>`: {r['stderr'][:160]!r}"
    if not 1 <= int(m.group(1)) <= src.count("\n") + 1:
        return f"line {m.group(1)} does not point into the script"
    if INTERNAL.search(m.group(4)):
        return f"internal identifier in message: {m.group(4)[:160]!r}"
    if r["stderr"][m.end():] != "":
        return f"text after the diagnostic of a failure outside every function call: {r['stderr'][m.end():][:120]!r}"
    return None


def run_literals(ctx, model_ok):
    cases = literal_cases(ctx.tier)
    srcs = [c[1] for c in cases]
    impl, dis = tie.run(ctx, srcs, "number_like_text", model_ok)
    bad = []
    for (key, src, prints), r in zip(cases, impl):
        ctx.nontrivial(("number-like",) + key)
        ctx.dist("number-like:" + r["status"])
        why = check_literal(r, src, prints)
        if why:
            bad.append((key, src, prints, why))
    bad.sort(key=lambda b: len(b[1]))
    seen = set()
    for key, src, prints, why in bad:
        sig = re.sub(r"\d+", "N", why)[:40]
        if sig in seen or len(seen) >= 4:
            continue
        c = core.run_cli(src)
        ctx.cov["cli_reconfirmed"] += 1
        cwhy = check_literal(c, src, prints)
        if not cwhy:
            continue
        seen.add(sig)
        ctx.violation("number-like text: " + cwhy, src, {"case": str(key), "cli": {**c, "stderr": c["stderr"][:600]}, "failing_cases_in_stream": len(bad)})
    explained = {b[1] for b in bad}
    tie.report_disagreements(ctx, [d for d in dis if d[0] not in explained], "number_like_text")


def oracle_one(ctx, src, r, expected=None):
    if expected is None:
        if r["status"] == "0":
            return (r["stderr"] == ""), "a successful script wrote to stderr"
        if r["status"] == "103":
            m = FIRST.match(r["stderr"])
            if not m or int(m.group(1)) < 1 or INTERNAL.search(m.group(4)):
                return False, f"malformed diagnostic: {r['stderr'][:200]!r}"
        if r["status"] == "101":
            return False, f"the interpreter crashed (status 101) instead of reporting a located diagnostic with status 103: {r['stderr'][:200]!r}"
        return True, ""
    why = check_diag(r, *expected)
    return (why is None), (why or "")


def run(ctx, model_ok):
    maxd = 5 if ctx.tier == "thorough" else 3
    cases = []
    ctxkinds = ["plain", "loop", "block", "method", "while"]
    for name, e in EXPR_ERRORS:
        for pos, mk in POSITIONS.items():
            for depth in range(0, maxd + 1):
                for ck in ctxkinds:
                    if name == "this_undefined" and ck == "method":
                        continue        # inside a method `this` is defined
                    if ctx.tier != "thorough" and (depth + len(pos) + len(ck) + len(name)) % 3 != 0 and not (depth <= 1 and ck == "plain"):
                        continue
                    if pos == "return":
                        if depth == 0 and ck != "method":
                            continue
                        cases.append(((name, pos, depth, ck),) + wrap(None, depth, ck, is_return_expr=e))
                        continue
                    st = mk(e)
                    if st is None:
                        continue
                    cases.append(((name, pos, depth, ck),) + wrap(st, depth, ck))
    for name, st in STMT_ERRORS:
        for depth in range(0, maxd + 1):
            for ck in ctxkinds:
                if ctx.tier != "thorough" and (depth + len(ck) + len(name)) % 2 != 0 and not (depth <= 1 and ck == "plain"):
                    continue
                cases.append(((name, "stmt", depth, ck),) + wrap(st, depth, ck))
    for name, st, printed in SLICE_ERRORS:
        for depth in (0, 1, 2):
            src, out, tr, fi = wrap(st, depth, "plain")
            cases.append(((name, "stmt", depth, "plain"), src, out + printed, tr, fi))
    # the call chain written with every call style: the trace must name the same callers whatever position the calls are in
    for style in CALL_STYLES:
        if style == "stmt":
            continue
        for name, st in STMT_ERRORS[:3] + [("undefined_in_expr", "v_u := zz_undefined + 1")]:
            for depth in (2, 3):
                for ck in ("plain", "loop", "method"):
                    cases.append(((name, "call-style:" + style, depth, ck),) + wrap(st, depth, ck, call_style=style))
    for name, st, frame in FRAME_STMT_ERRORS:
        for depth in range(0, min(maxd, 2) + 1):
            for ck in ("plain", "loop", "block"):
                cases.append(((name, "stmt", depth, ck),) + wrap(st, depth, ck, extra_frame=frame))
    # jumps that escape a called function / the program
    for j in ("break", "continue"):
        for depth in (1, 2, 3):
            src, out, _, _ = wrap(j, depth, "plain")
            # the jump escapes f<depth>; the error surfaces at that call, i.e. inside f<depth-1> (or the root)
            chain = [f"f{d}" for d in range(1, depth)]
            callers = ["<root>"] + chain[:-1] if chain else []
            cases.append(((j, "escapes_call", depth, "plain"), src, out, list(reversed(callers)), chain[-1] if chain else None))
    for j in ("break", "continue", "return 1"):
        cases.append(((j, "toplevel", 0, "block"),) + wrap(j, 0, "block"))
    # binding errors in every binding position (`:=`, `=`, parameters, `for` targets, nested patterns)
    cases.extend(binding_cases(ctx.tier, maxd))
    srcs = [c[1] for c in cases]
    impl, dis = tie.run(ctx, srcs, "error_sites", model_ok)
    bad = []
    for (key, src, exp_out, exp_trace, first_in), r in zip(cases, impl):
        ctx.nontrivial(key)
        ctx.dist("pos:" + key[1])
        ctx.dist("depth:" + str(key[2]))
        # break/continue escaping a function surface outside the frame: no trace is required for them
        why = check_diag(r, exp_out, exp_trace, first_in)
        if why:
            bad.append((key, src, why, (exp_out, exp_trace, first_in)))
    bad.sort(key=lambda b: len(b[1]))
    reported = {}
    for key, src, why, exp in bad:
        sig = re.sub(r"\d+", "N", why)[:60] + "|" + (key[0] if key[1] in ("stmt", "escapes_call") else key[1] if "return" in key[1] else
                                                     key[1].split("/")[0] if key[1].startswith("binder:") else "")
        if sig in reported:
            reported[sig] += 1
            continue
        c = core.run_cli(src)
        ctx.cov["cli_reconfirmed"] += 1
        cwhy = check_diag(c, *exp)
        if not cwhy:
            continue
        reported[sig] = 1
        details = {"case": str(key), "cli": c, "failing_cases_in_stream": len(bad)}
        if key[1] in ("call-style:slot", "call-style:nested-slot") and known_slot_call_shape(c, *exp, slot_owner="f1"):
            # exactly the known mechanism (K6), everything else as required: listed as a known finding
            details["call_inside_slot_known_shape"] = True
        if len(reported) <= 8:
            ctx.violation("malformed or unlocated diagnostic: " + cwhy, src, details)
    explained = {b[1] for b in bad}
    tie.report_disagreements(ctx, [d for d in dis if d[0] not in explained], "error_sites")
    for k in (len(cases) // 3, len(cases) * 2 // 3):
        ctx.sample({"case": str(cases[k][0]), "src": cases[k][1][-400:], "impl_stderr": impl[k]["stderr"]})
    run_recursion(ctx, model_ok)
    run_literals(ctx, model_ok)
    # positions count characters: multi-byte text earlier on the line of the failing construct and of each call
    import lib_syntax as LS
    marked = [
        'fn f1() {\n    s := "é€😀"; t := «0»zz_undefined\n    return 0\n}\nw := "é😀€"; «1»f1()\n',
        'fn f2() {\n    return 1 «0»+ "é"\n}\nfn f1() {\n    q := "ß"; r := «1»f2()\n    return r\n}\n# é€\nu := ["😀", «2»f1()]\n',
        'o := {"m": fn () {\n    k := "日本"; [a, b] «9»:= [1]\n}}\nv := "é"; «0»o.m()\n',
    ]
    for text in marked:
        marks, clean = {}, ""
        i = 0
        while i < len(text):
            if text[i] == "«":
                marks[int(text[i + 1])] = len(clean)
                i += 3
            else:
                clean += text[i]
                i += 1
        r = core.run_cli(clean)
        ctx.count("positions_after_multibyte:cli", 1)
        ctx.nontrivial(("multibyte-positions", clean[:30]))
        m = FIRST.match(r["stderr"])
        got = [(int(m.group(1)), int(m.group(2)))] if m else []
        got += [(int(a), int(b)) for a, b, _ in TRACE.findall(r["stderr"])]
        want = [LS.pos_of(clean, marks[k]) for k in sorted(marks) if k != 9]
        if 9 in marks:          # the failing construct is a statement: its position is not pinned here, the call positions are
            got, want = got[1:], want
        if r["status"] != "103" or got != want:
            ctx.violation(f"positions after multi-byte text: the diagnostic and its stack trace give {got}, the constructs are at {want} "
                          f"(columns count characters)", clean, {"cli": r})
    # lexical and parse errors + successful scripts: generic grammar
    fe = gens.unterminated() + gens.mutations(gens.seed_programs(), ctx.rng, per=3 if ctx.tier == "quick" else 40)
    # only inputs the front end rejects (a mutated program that still parses may loop forever)
    verdicts = core.batch("impl", "ast", fe)
    fe = [s for s, b in zip(fe, verdicts) if b.startswith("ERR")]
    impl2, dis2 = tie.run(ctx, fe, "front_end_errors", model_ok)
    bad2 = []
    for s, r in zip(fe, impl2):
        ctx.dist("fe:" + r["status"])
        ok, why = oracle_one(ctx, s, r)
        if not ok:
            bad2.append((s, why))
    for s, why in sorted(bad2, key=lambda b: len(b[0]))[:3]:
        c = core.run_cli(s)
        if not oracle_one(ctx, s, c)[0]:
            ctx.violation("malformed diagnostic: " + why, s, {"cli": c})
    tie.report_disagreements(ctx, [d for d in dis2 if d[0] not in {b[0] for b in bad2}], "front_end_errors")
