"""C17 — a failure is one well-formed located diagnostic after the output so far."""
import re
import core
import gens
import tie

RULE = ("every raisable error kind (expression-level and statement-level) x syntactic position {statement, condition, return "
        "expression, argument, index, loop iterable, destructure source, interpolation slot, object value, list item} x call depth "
        "0..3 (quick) / 0..5 (thorough) x {plain, inside loop, inside bare block, inside method}; plus every lexical and parse "
        "error kind; oracle = stderr grammar, planted call chain vs stack trace, planted prints vs stdout, no internal "
        "identifiers; non-trivial = distinct (error, position, depth, context)")
ASSUMPTIONS = ["a diagnostic raised inside an interpolation slot carries a second, slot-relative position inside its message "
               "(`l:c: l2:c2: msg`); the grammar accepts it as message text"]

EXPR_ERRORS = [
    ("undefined", "zz_undefined"), ("optypes", '1 + "a"'), ("list_oob", "[1][5]"), ("prop_missing", '{"a": 1}.zz'),
    ("overflow", "9223372036854775807 + 1"), ("div0", "1 / 0"), ("mod0", "1 % 0"), ("null_type", "null->type()"),
    ("call_nonfunc", "1()"), ("str_oob", '"a"[3]'), ("eq_types", "[1] == 1"), ("and_types", "true && 1"),
    ("range_type", '(1 .. "a")'), ("neg_index", "[1, 2][0 - 1]"), ("obj_index_type", '{"k": 1}[1]'),
    ("bad_range", "[1, 2, 3][2:1]"), ("interp_nonstr", '$"${1}"'), ("interp_undefined", '$"a${zz_undefined}"'),
    ("print_arity", "print(1, 2)"), ("arity", "two_params(1)"), ("utf8_len", '"é"[0:1]->len()'), ("utf8_print", 'print("é"[0:1])'),
    ("collect_outside", "[..ok_list]"), ("obj_collect_outside", "{..ok_obj}"), ("spread_nonlist", "[1..]"),
    ("spread_nonobj", "{1..}"), ("shorthand_notvar", "{1}"), ("type_fn_missing", "1->nope"), ("prop_on_nonobj", "1.k"),
    ("not_indexable", "null[0]"), ("not_range_indexable", "1[0:1]"), ("too_few_args", "rest_params()"),
    ("refeq_types", "1 === 1"), ("lt_types", '"a" < "b"'), ("prop_name_type", "{1: 2}"), ("this_undefined", "this"),
    ("method_this_print", "obj_with_print.p(1)"), ("nested_eq_types", '[[1, "a"]] == [[1, 2]]'),
    ("utf8_print_in_list", 'print(["first", "é"[0], "last"])'), ("utf8_print_in_object", 'print({"a": "first", "b": {"c": "é"[0:1]}})'),
    ("utf8_print_nested", 'print([1, [2, ["é"[1]]], 3])'),
    ("eq_types_inside_alias", "ok_nested == [ok_nested]"), ("eq_types_alias_in_object", '{"k": ok_nested} == {"k": [ok_nested]}'),
    ("ne_types_inside_alias", "[ok_nested, 1] != [[ok_nested], 1]"),
]

STMT_ERRORS = [
    ("assign_undefined", "zz_undefined = 1"), ("destruct_len", "[q1, q2] := [1]"), ("redeclare", "x_dup := 1\nx_dup := 2"),
    ("bind_literal", "1 := 2"), ("if_nonbool", "if 1 {\n    print(1)\n}"), ("while_nonbool", "while 1 {\n    print(1)\n}"),
    ("for_noniter", "for q in 5 {\n    print(1)\n}"), ("set_oob", "ok_list[5] = 1"), ("rset_oob", "ok_list[0:9] = [1]"),
    ("opassign_missing_prop", "ok_obj.nope += 1"), ("opassign_missing_index", 'ok_obj["nope"] += 1'), ("str_set", '"s"[0] = "a"'),
    ("dup_param", "fn g_dup(a, a) {\n    return 1\n}"), ("opassign_types", 'ok_int = 1\nok_int += "a"'),
    ("destruct_nonlist", "[q1] := 1"), ("destruct_nonobj", "{q1} := 1"), ("destruct_missing", "{nope} := ok_obj"),
    ("collect_notlast", "{..r1, a} := ok_obj"), ("name_twice", "[d1, d1] := [1, 2]"), ("spread_in_destruct", "[s1..] := [[1]]"),
    ("op_on_range", "ok_list[0:1] += [1]"), ("op_on_destruct", "[o1] += [1]"), ("assign_typeprop", "ok_int->type = 1"),
    ("bind_call", "ok_fn() = 1"), ("rset_mismatch", "ok_list[0:2] = [1]"), ("rset_nonindexable", "ok_list[0:1] = 1"),
    ("prop_assign_nonobj", "ok_int.k = 1"), ("index_assign_nonindexable", "ok_int[0] = 1"), ("range_start_after_end", "ok_list[2:1] = []"),
    ("param_literal", "fn g_lit(1) {\n    return 1\n}"), ("collect_too_few", "[c1, c2, ..c3] := [1]"),
    ("param_prop_spread", "fn g_ps({a..}) {\n    return 1\n}"), ("param_item_spread", "fn g_is([a..]) {\n    return 1\n}"),
    ("param_index", "fn g_pi(ok_list[0]) {\n    return 1\n}"), ("param_range_index", "fn g_pr(ok_list[0:1]) {\n    return 1\n}"),
    ("param_prop", "fn g_pp(ok_obj.a) {\n    return 1\n}"), ("prop_name_bad_utf8", 'v_bad := ok_obj["é"[0]]'),
    ("destructure_into_source_oob", "ok_pair := [1, 2]\n[ok_pair[2], ok_pair[0]] = ok_pair"),
    ("destructure_into_source_type", 'ok_pair := [1, 2]\n[ok_pair[0], ok_pair["x"]] = ok_pair'),
    ("destructure_into_source_then_fail", "ok_pair := [1, 2]\n[ok_pair[1], ok_pair[0]] = ok_pair\nv_u := ok_pair[0] + zz_undefined"),

    ("prop_name_bad_utf8_lit", 'v_bad2 := {"é"[1:2]: 1}'), ("destruct_key_bad_utf8", '{"é"[0]: q9} := ok_obj'),
]

POSITIONS = {
    "statement": lambda e: f"v_pos := {e}",
    "condition": lambda e: f"if ({e}) == 1 {{\n    print(\"in-cond\")\n}}",
    "argument": lambda e: f"ident({e})",
    "index": lambda e: f"print(ok_list[{e}])",
    "iterable": lambda e: f"for q_it in {e} {{\n    print(\"in-loop\")\n}}",
    "destructure": lambda e: f"[a_d, b_d] := {e}",
    "slot": lambda e: f'v_slot := $"x${{{e}}}y"' if '"' not in e else None,
    "object_value": lambda e: f'v_obj := {{"k": {e}}}',
    "list_item": lambda e: f"v_list := [0, {e}]",
    "return": lambda e: None,     # handled specially (must be inside a function)
    "op_rhs": lambda e: f"ok_acc += {e}",
    "spread_item": lambda e: f"v_sp := [0, ident([{e}])..]",
    "spread_arg": lambda e: f"ident(ident([{e}])..)",
    "spread_prop": lambda e: f'v_spo := {{"k": 0, ident({{"z": {e}}})..}}',
    "range_bound": lambda e: f"v_rb := ok_list[0:ident({e})]",
    "prop_name": lambda e: f"v_pn := {{ident({e}): 1}}",
    "call_callee": lambda e: f"ident({e})(1)" if e[0].isalpha() or e[0] in "([{" else None,
}

# a slice expression evaluates its start, then its end, then the sliced value (DESIGN.md Appendix A; C11 `eval_slice`): what
# its parts print before the failure belongs to stdout
SLICE_ERRORS = [
    ("slice_end_fails", "v_sl := tr_text()[tr_from():zz_undefined]", "from\n"),
    ("slice_value_undefined", "v_sl := zz_undefined[tr_from():tr_from()]", "from\nfrom\n"),
    ("slice_start_fails", "v_sl := tr_text()[1():tr_from()]", ""),
    ("slice_out_of_range", "v_sl := tr_text()[tr_from():9]", "from\ntext\n"),
]

PRELUDE = ('fn two_params(a, b) {\n    return a\n}\nfn rest_params(a, ..r) {\n    return a\n}\nfn ident(x) {\n    return x\n}\n'
           'fn ok_fn() {\n    return 1\n}\nok_list := [1, 2, 3]\nok_obj := {"a": 1}\nok_int := 1\nok_acc := 0\nok_nested := [[1]]\nfn tr_text() {\n    print("text")\n    return "abcdef"\n}\nfn tr_from() {\n    print("from")\n    return 1\n}\n'
           'obj_with_print := {"p": print}\nprint("p0")\n')

FIRST = re.compile(r"\At\.sd:(\d+):(\d+): (?:in '([^'\n]+)': )?([^\n]+)\n")
TRACE = re.compile(r"  t\.sd:(\d+):(\d+): in '([^'\n]+)'\n")
INTERNAL = re.compile(r"\b[A-Z][A-Za-z]+Failed\b|\b[A-Z][A-Za-z]+ \{ \w+:|\bSome\(|\bNone\b")


# statements that fail *inside* one more (anonymous method) call frame than the one they are written in
FRAME_STMT_ERRORS = [
    ("this_param_clash", 'm2 := {"f": fn (this) {\n    return 1\n}}\nm2.f(1)', "<unnamed function>"),
    ("method_body_error", 'm3 := {"g": fn () {\n    return zz_undefined\n}}\nm3.g()', "<unnamed function>"),
    ("param_pattern_mismatch", 'fn g_pm([pa, pb]) {\n    return pa\n}\ng_pm([3])', "g_pm"),
    ("param_object_pattern_missing", 'fn g_po({pa}) {\n    return pa\n}\ng_po({"other": 1})', "g_po"),
    ("param_pattern_mismatch_second_call", 'fn g_p2([pa, pb]) {\n    return pa\n}\ng_p2([1, 2])\ng_p2([3])', "g_p2"),
]


# how each function of the chain calls the next one (the position of the call inside its caller)
CALL_STYLES = {
    "stmt": "{f}()",
    "declare": "v_call := {f}()",
    "slot": 'v_call := $"a${{{f}()}}b"',
    "nested-slot": 'v_call := $"a${{$"<${{{f}()}}>"}}b"',
    "list-item": "v_call := [1, {f}()]",
    "argument": "v_call := ident({f}())",
    "condition": "if {f}() == 0 {{\n    ok_acc += 1\n}}",
    "operand": "v_call := 1 + {f}()",
    "index": "v_call := ok_list[{f}()]",
    "prop-value": 'v_call := {{"k": {f}()}}',
    "return": "return {f}()",
    "for-iterable": "for [k_i, v_i] in [{f}()] {{\n    ok_acc += 1\n}}",
}


def wrap(stmt_text, depth, ctxkind, is_return_expr=None, extra_frame=None, call_style="stmt"):
    """build the program; returns (src, expected_stdout, expected_frames) — frames: innermost-first list of function names
    that must appear in the trace (`in '<name>'`), and the name the first line must carry (or None)."""
    lines = []
    ind = lambda s, n: "\n".join(("    " * n + l) if l else l for l in s.split("\n"))
    body = stmt_text if is_return_expr is None else f"return {is_return_expr}"
    inner = 'print("p-inner")\n' + body + '\nprint("unreachable")'
    if ctxkind == "loop":
        inner = f"for [k_c, v_c] in [1, 2] {{\n{ind(inner, 1)}\n}}"
    elif ctxkind == "block":
        inner = f"{{\n{ind(inner, 1)}\n}}"
    elif ctxkind == "while":
        inner = f"i_c := 0\nwhile i_c < 2 {{\n    i_c += 1\n{ind(inner, 1)}\n}}"
    names = []
    if ctxkind == "method":
        # innermost is an anonymous function stored in an object and called as a method
        inner_fn = f'm_obj := {{"m": fn () {{\n{ind(inner, 1)}\n    return 0\n}}}}\nm_obj.m()'
        inner = inner_fn
        names.append("<unnamed function>")
    text = inner
    for d in range(depth, 0, -1):
        fname = f"f{d}"
        # the outermost call (from the root) is a plain statement; the calls between functions use the chosen style
        style = CALL_STYLES[call_style if d > 1 else "stmt"]
        text = f"fn {fname}() {{\n{ind(text, 1)}\n    return 0\n}}\n" + style.replace("{f}", fname).replace("{{", "{").replace("}}", "}")
        names.append(fname)
    # names so far: [<unnamed>?] + [f_depth .. f1] built inside-out: innermost first means reverse order of wrapping
    chain = ([f"f{d}" for d in range(1, depth + 1)]) + (["<unnamed function>"] if ctxkind == "method" else [])
    if extra_frame:
        chain = chain + [extra_frame]
    src = PRELUDE + text + '\nprint("unreachable-end")\n'
    expected_stdout = "p0\n" + "p-inner\n"
    # trace: one line per active call, innermost first, each naming the function containing the call, ending at <root>
    callers = ["<root>"] + chain[:-1] if chain else []
    expected_trace = list(reversed(callers))
    first_in = chain[-1] if chain else None
    return src, expected_stdout, expected_trace, first_in


def check_diag(r, expected_stdout, expected_trace, first_in, allow_extra_stdout=False):
    if r["status"] != "103":
        return f"expected exit status 103, got {r['status']}"
    if r["stdout"] != expected_stdout and not (allow_extra_stdout and r["stdout"].startswith(expected_stdout[:3])):
        return f"stdout is not the output of the prints completed before the failure: {r['stdout']!r} vs {expected_stdout!r}"
    e = r["stderr"]
    m = FIRST.match(e)
    if not m:
        return f"stderr does not start with `<path>:<line>:<col>: [in '<f>': ]<message>`: {e[:160]!r}"
    if int(m.group(1)) < 1:
        return f"line {m.group(1)} < 1: {e[:120]!r}"
    if INTERNAL.search(m.group(4)):
        return f"internal identifier in message: {m.group(4)[:160]!r}"
    if m.group(3) != first_in:
        return f"first line names function {m.group(3)!r}, expected {first_in!r}"
    rest = e[m.end():]
    if expected_trace:
        if not rest.startswith("Stacktrace:\n"):
            return f"no `Stacktrace:` after the first line: {rest[:120]!r}"
        tr = TRACE.findall(rest[len("Stacktrace:\n"):])
        consumed = "Stacktrace:\n" + "".join(f"  t.sd:{a}:{b}: in '{c}'\n" for a, b, c in tr)
        if consumed != rest:
            return f"malformed stack trace: {rest[:200]!r}"
        if [c for _, _, c in tr] != expected_trace:
            return f"stack trace names {[c for _, _, c in tr]}, expected {expected_trace}"
        if any(int(a) < 1 for a, _, _ in tr):
            return "stack trace line < 1"
    elif rest != "":
        return f"unexpected text after the diagnostic: {rest[:120]!r}"
    return None


NESTED_LOC = re.compile(r"\A(?:\d+:\d+: (?:in '[^'\n]+': )?)+")


def known_slot_call_shape(r, expected_stdout, expected_trace, first_in, slot_owner):
    """K6: a failure inside a function that was called from an interpolation slot.  The slot is parsed on its own when it is
    evaluated, so the diagnostic is anchored at the slot (first line: position of the slot, `in '<function containing the
    slot>'`, then the nested `l:c: in '<failing function>': message`), and the trace line of the call made in the slot carries
    its position relative to the slot text.  Everything else is still required: stdout, status 103, one well-formed first line
    with line >= 1 naming the function that contains the outermost slot, no internal identifiers, the failing function
    named in the nested part, and a trace that names exactly the expected callers, innermost first, ending at <root>."""
    if r["status"] != "103" or r["stdout"] != expected_stdout:
        return False
    m = FIRST.match(r["stderr"])
    if not m or int(m.group(1)) < 1 or INTERNAL.search(m.group(4)) or m.group(3) != slot_owner:
        return False
    n = NESTED_LOC.match(m.group(4))
    if not n or (first_in is not None and f"in '{first_in}': " not in n.group(0)):
        return False
    rest = r["stderr"][m.end():]
    if not rest.startswith("Stacktrace:\n"):
        return False
    tr = TRACE.findall(rest[len("Stacktrace:\n"):])
    consumed = "Stacktrace:\n" + "".join(f"  t.sd:{a}:{b}: in '{c}'\n" for a, b, c in tr)
    return consumed == rest and [c for _, _, c in tr] == expected_trace and all(int(a) >= 1 for a, _, _ in tr)


def oracle_one(ctx, src, r, expected=None):
    if expected is None:
        if r["status"] == "0":
            return (r["stderr"] == ""), "a successful script wrote to stderr"
        if r["status"] == "103":
            m = FIRST.match(r["stderr"])
            if not m or int(m.group(1)) < 1 or INTERNAL.search(m.group(4)):
                return False, f"malformed diagnostic: {r['stderr'][:200]!r}"
        return True, ""
    why = check_diag(r, *expected)
    return (why is None), (why or "")


def run(ctx, model_ok):
    maxd = 5 if ctx.tier == "thorough" else 3
    cases = []
    ctxkinds = ["plain", "loop", "block", "method", "while"]
    for name, e in EXPR_ERRORS:
        for pos, mk in POSITIONS.items():
            for depth in range(0, maxd + 1):
                for ck in ctxkinds:
                    if name == "this_undefined" and ck == "method":
                        continue        # inside a method `this` is defined
                    if ctx.tier != "thorough" and (depth + len(pos) + len(ck) + len(name)) % 3 != 0 and not (depth <= 1 and ck == "plain"):
                        continue
                    if pos == "return":
                        if depth == 0 and ck != "method":
                            continue
                        cases.append(((name, pos, depth, ck),) + wrap(None, depth, ck, is_return_expr=e))
                        continue
                    st = mk(e)
                    if st is None:
                        continue
                    cases.append(((name, pos, depth, ck),) + wrap(st, depth, ck))
    for name, st in STMT_ERRORS:
        for depth in range(0, maxd + 1):
            for ck in ctxkinds:
                if ctx.tier != "thorough" and (depth + len(ck) + len(name)) % 2 != 0 and not (depth <= 1 and ck == "plain"):
                    continue
                cases.append(((name, "stmt", depth, ck),) + wrap(st, depth, ck))
    for name, st, printed in SLICE_ERRORS:
        for depth in (0, 1, 2):
            src, out, tr, fi = wrap(st, depth, "plain")
            cases.append(((name, "stmt", depth, "plain"), src, out + printed, tr, fi))
    # the call chain written with every call style: the trace must name the same callers whatever position the calls are in
    for style in CALL_STYLES:
        if style == "stmt":
            continue
        for name, st in STMT_ERRORS[:3] + [("undefined_in_expr", "v_u := zz_undefined + 1")]:
            for depth in (2, 3):
                for ck in ("plain", "loop", "method"):
                    cases.append(((name, "call-style:" + style, depth, ck),) + wrap(st, depth, ck, call_style=style))
    for name, st, frame in FRAME_STMT_ERRORS:
        for depth in range(0, min(maxd, 2) + 1):
            for ck in ("plain", "loop", "block"):
                cases.append(((name, "stmt", depth, ck),) + wrap(st, depth, ck, extra_frame=frame))
    # jumps that escape a called function / the program
    for j in ("break", "continue"):
        for depth in (1, 2, 3):
            src, out, _, _ = wrap(j, depth, "plain")
            # the jump escapes f<depth>; the error surfaces at that call, i.e. inside f<depth-1> (or the root)
            chain = [f"f{d}" for d in range(1, depth)]
            callers = ["<root>"] + chain[:-1] if chain else []
            cases.append(((j, "escapes_call", depth, "plain"), src, out, list(reversed(callers)), chain[-1] if chain else None))
    for j in ("break", "continue", "return 1"):
        cases.append(((j, "toplevel", 0, "block"),) + wrap(j, 0, "block"))
    srcs = [c[1] for c in cases]
    impl, dis = tie.run(ctx, srcs, "error_sites", model_ok)
    bad = []
    for (key, src, exp_out, exp_trace, first_in), r in zip(cases, impl):
        ctx.nontrivial(key)
        ctx.dist("pos:" + key[1])
        ctx.dist("depth:" + str(key[2]))
        # break/continue escaping a function surface outside the frame: no trace is required for them
        why = check_diag(r, exp_out, exp_trace, first_in)
        if why:
            bad.append((key, src, why, (exp_out, exp_trace, first_in)))
    bad.sort(key=lambda b: len(b[1]))
    reported = {}
    for key, src, why, exp in bad:
        sig = re.sub(r"\d+", "N", why)[:60] + "|" + (key[0] if key[1] in ("stmt", "escapes_call") else key[1] if "return" in key[1] else "")
        if sig in reported:
            reported[sig] += 1
            continue
        c = core.run_cli(src)
        ctx.cov["cli_reconfirmed"] += 1
        cwhy = check_diag(c, *exp)
        if not cwhy:
            continue
        reported[sig] = 1
        details = {"case": str(key), "cli": c, "failing_cases_in_stream": len(bad)}
        if key[1] in ("call-style:slot", "call-style:nested-slot") and known_slot_call_shape(c, *exp, slot_owner="f1"):
            # exactly the known mechanism (K6), everything else as required: listed as a known finding
            details["call_inside_slot_known_shape"] = True
        if len(reported) <= 8:
            ctx.violation("malformed or unlocated diagnostic: " + cwhy, src, details)
    explained = {b[1] for b in bad}
    tie.report_disagreements(ctx, [d for d in dis if d[0] not in explained], "error_sites")
    for k in (len(cases) // 3, len(cases) * 2 // 3):
        ctx.sample({"case": str(cases[k][0]), "src": cases[k][1][-400:], "impl_stderr": impl[k]["stderr"]})
    # positions count characters: multi-byte text earlier on the line of the failing construct and of each call
    import lib_syntax as LS
    marked = [
        'fn f1() {\n    s := "é€😀"; t := «0»zz_undefined\n    return 0\n}\nw := "é😀€"; «1»f1()\n',
        'fn f2() {\n    return 1 «0»+ "é"\n}\nfn f1() {\n    q := "ß"; r := «1»f2()\n    return r\n}\n# é€\nu := ["😀", «2»f1()]\n',
        'o := {"m": fn () {\n    k := "日本"; [a, b] «9»:= [1]\n}}\nv := "é"; «0»o.m()\n',
    ]
    for text in marked:
        marks, clean = {}, ""
        i = 0
        while i < len(text):
            if text[i] == "«":
                marks[int(text[i + 1])] = len(clean)
                i += 3
            else:
                clean += text[i]
                i += 1
        r = core.run_cli(clean)
        ctx.count("positions_after_multibyte:cli", 1)
        ctx.nontrivial(("multibyte-positions", clean[:30]))
        m = FIRST.match(r["stderr"])
        got = [(int(m.group(1)), int(m.group(2)))] if m else []
        got += [(int(a), int(b)) for a, b, _ in TRACE.findall(r["stderr"])]
        want = [LS.pos_of(clean, marks[k]) for k in sorted(marks) if k != 9]
        if 9 in marks:          # the failing construct is a statement: its position is not pinned here, the call positions are
            got, want = got[1:], want
        if r["status"] != "103" or got != want:
            ctx.violation(f"positions after multi-byte text: the diagnostic and its stack trace give {got}, the constructs are at {want} "
                          f"(columns count characters)", clean, {"cli": r})
    # lexical and parse errors + successful scripts: generic grammar
    fe = gens.unterminated() + gens.mutations(gens.seed_programs(), ctx.rng, per=3 if ctx.tier == "quick" else 40)
    # only inputs the front end rejects (a mutated program that still parses may loop forever)
    verdicts = core.batch("impl", "ast", fe)
    fe = [s for s, b in zip(fe, verdicts) if b.startswith("ERR")]
    impl2, dis2 = tie.run(ctx, fe, "front_end_errors", model_ok)
    bad2 = []
    for s, r in zip(fe, impl2):
        ctx.dist("fe:" + r["status"])
        ok, why = oracle_one(ctx, s, r)
        if not ok:
            bad2.append((s, why))
    for s, why in sorted(bad2, key=lambda b: len(b[0]))[:3]:
        c = core.run_cli(s)
        if not oracle_one(ctx, s, c)[0]:
            ctx.violation("malformed diagnostic: " + why, s, {"cli": c})
    tie.report_disagreements(ctx, [d for d in dis2 if d[0] not in {b[0] for b in bad2}], "front_end_errors")
