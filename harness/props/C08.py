"""C08 — expressions group by fixed operator tiers, left to right; parentheses override."""
import itertools
import re

import core
import lib_syntax as L
import tie

RULE = ("the generator holds an expression tree, prints it (minimal parentheses by the documented tiers / every compound "
        "sub-expression parenthesised / random redundant pairs, up to 2 per node) as `r := <expr>`, and the implementation's "
        "--verif-ast dump with positions erased must be that tree; streams: every sequence of 2 (quick) / 3 (thorough) binary "
        "operators over the 15 operators and `..` x every tree shape (exhaustive), every sequence x every operand position x "
        "{call, index, range-index, .name, ->name, literal minus}, random 4-operator sequences, random trees of depth <= 8 "
        "with postfix chains, spreads, list/object literals, negative literals; grouping of every operator pair confirmed "
        "through the CLI with operand values for which the two groupings print different results.  Non-trivial = distinct "
        "(stream, operator multiset / tree-shape signature, parenthesisation variant)")
ASSUMPTIONS = [
    "anonymous-function literals (whose bodies are statements) are not generated as operands",
    "CLI confirmation of a grouping uses the implementation's own evaluation of the two explicitly parenthesised forms",
]

# documented tiers (larger = tighter); `..` is looser than all of them
TIER = {"Mul": 4, "Div": 4, "Mod": 4, "Eq": 4, "Ne": 4, "Lt": 4, "Lte": 4, "Gt": 4, "Gte": 4, "RefEq": 4, "RefNe": 4,
        "Sum": 3, "Sub": 3, "And": 2, "Or": 2}
SYM = {"Mul": "*", "Div": "/", "Mod": "%", "Eq": "==", "Ne": "!=", "Lt": "<", "Lte": "<=", "Gt": ">", "Gte": ">=",
       "RefEq": "===", "RefNe": "!==", "Sum": "+", "Sub": "-", "And": "&&", "Or": "||"}
OPS16 = list(TIER) + ["Range"]
RANGE_TIER = 1
POSTFIX_TIER = 5


# ------------------------------------------------------------------------------------------ trees
def tier(e):
    k = e[0]
    if k == "Bin":
        return TIER[e[1]]
    if k == "Range":
        return RANGE_TIER
    return 6


def mk(op, l, r):
    return ("Range", l, r) if op == "Range" else ("Bin", op, l, r)


def sexp(e):
    k = e[0]
    if k == "Int":
        body = f"(Int {e[1]})"
    elif k == "Var":
        body = f"(Var {L.hexs(e[1])})"
    elif k == "Str":
        body = f"(Str {L.hexs(e[1])} none)"
    elif k == "Null":
        body = "Null"
    elif k == "Bool":
        body = f"(Bool {'true' if e[1] else 'false'})"
    elif k == "Bin":
        body = f"(BinaryOp {e[1]} {sexp(e[2])} {sexp(e[3])})"
    elif k == "Range":
        body = f"(Range {sexp(e[1])} {sexp(e[2])})"
    elif k == "Call":
        body = f"(Call {sexp(e[1])} {items(e[2])})"
    elif k == "Index":
        body = f"(Index {sexp(e[1])} {sexp(e[2])})"
    elif k == "RangeIndex":
        body = f"(RangeIndex {sexp(e[1])} {sexp(e[2]) if e[2] else 'none'} {sexp(e[3]) if e[3] else 'none'})"
    elif k == "Prop":
        body = f"(Prop {sexp(e[1])} {L.hexs(e[2])} {'true' if e[3] else 'false'})"
    elif k == "List":
        body = f"(List {items(e[1])} false)"
    elif k == "Object":
        body = "(Object [" + " ".join(f"(Pair {sexp(a)} {sexp(b)})" for a, b in e[1]) + "])"
    else:
        raise ValueError(k)
    return f"(E {body})"


def items(xs):
    return "[" + " ".join(f"(Item {sexp(x)} {'true' if sp else 'false'})" for x, sp in xs) + "]"


class Printer:
    """mode: 'min' | 'full' | 'extra' (random redundant pairs on top of the necessary ones)"""

    def __init__(self, mode, rng=None):
        self.mode, self.rng = mode, rng

    def p(self, e, need, root=False):
        s = self.raw(e)
        n = 1 if tier(e) < need else 0
        if self.mode == "full" and not root and e[0] not in ("Int", "Var", "Str", "Null", "Bool"):
            n = max(n, 1)
        elif self.mode == "full" and not root and self.rng is not None and self.rng.random() < 0.25:
            n = max(n, 1)
        elif self.mode == "extra" and self.rng.random() < 0.35:
            n += self.rng.randrange(1, 3)
        return "(" * n + s + ")" * n

    def item(self, x):
        e, sp = x
        return self.p(e, 1) + (".." if sp else "")

    def raw(self, e):
        k = e[0]
        if k == "Int":
            return str(e[1])
        if k == "Var":
            return e[1]
        if k == "Str":
            return '"' + e[1] + '"'
        if k == "Null":
            return "null"
        if k == "Bool":
            return "true" if e[1] else "false"
        if k == "Bin":
            t = TIER[e[1]]
            return f"{self.p(e[2], t)} {SYM[e[1]]} {self.p(e[3], t + 1)}"
        if k == "Range":
            return f"{self.p(e[1], RANGE_TIER)} .. {self.p(e[2], RANGE_TIER + 1)}"
        if k == "Call":
            return self.p(e[1], POSTFIX_TIER) + "(" + ", ".join(self.item(x) for x in e[2]) + ")"
        if k == "Index":
            return self.p(e[1], POSTFIX_TIER) + "[" + self.p(e[2], 1) + "]"
        if k == "RangeIndex":
            return (self.p(e[1], POSTFIX_TIER) + "[" + (self.p(e[2], 1) if e[2] else "") + ":" +
                    (self.p(e[3], 1) if e[3] else "") + "]")
        if k == "Prop":
            return self.p(e[1], POSTFIX_TIER) + ("->" if e[3] else ".") + e[2]
        if k == "List":
            return "[" + ", ".join(self.item(x) for x in e[1]) + "]"
        if k == "Object":
            return "{" + ", ".join(f"{self.p(a, 1)}: {self.p(b, 1)}" for a, b in e[1]) + "}"
        raise ValueError(k)


def render(e, mode, rng=None):
    return Printer(mode, rng).p(e, 1, root=True)


def compact(text):
    """remove the blanks outside string literals, except where two tokens would merge (keyword/identifier/number runs)"""
    out = []
    in_str = False
    for i, ch in enumerate(text):
        if ch == '"':
            in_str = not in_str
        if ch == " " and not in_str:
            prev = out[-1] if out else ""
            nxt = text[i + 1] if i + 1 < len(text) else ""
            if (prev.isalnum() or prev == "_") and (nxt.isalnum() or nxt == "_"):
                out.append(ch)
            continue
        out.append(ch)
    return "".join(out)


def shapes(n):
    """all binary tree shapes with n internal nodes, as nested tuples of None leaves"""
    if n == 0:
        return [None]
    out = []
    for k in range(n):
        for l in shapes(k):
            for r in shapes(n - 1 - k):
                out.append((l, r))
    return out


def fill(shape, ops, leaves):
    """in-order: operators and leaves are consumed left to right"""
    oi = iter(ops)
    li = iter(leaves)

    def go(s):
        if s is None:
            return next(li)
        l = go(s[0])
        op = next(oi)
        r = go(s[1])
        return mk(op, l, r)
    return go(shape)


def decorate(kind, v):
    return {"call": ("Call", v, [(("Int", 1), False)]), "index": ("Index", v, ("Int", 0)),
            "rindex": ("RangeIndex", v, ("Int", 1), ("Int", 2)), "prop": ("Prop", v, "p", False),
            "tprop": ("Prop", v, "q", True), "neg": ("Int", -3)}[kind]


DECOS = ["call", "index", "rindex", "prop", "tprop", "neg"]
VARS = ["a", "b", "c", "d", "e"]


def random_tree(rng, depth):
    if depth <= 0 or rng.random() < 0.18:
        c = rng.random()
        if c < 0.45:
            return ("Var", rng.choice(VARS))
        if c < 0.65:
            return ("Int", rng.randrange(0, 100))
        if c < 0.8:
            return ("Int", -rng.randrange(1, 100))
        if c < 0.9:
            return ("Str", rng.choice(["", "s", "é", "x y"]))
        return rng.choice([("Null",), ("Bool", True), ("Bool", False)])
    c = rng.random()
    sub = lambda: random_tree(rng, depth - 1)
    if c < 0.5:
        return mk(rng.choice(OPS16), sub(), sub())
    if c < 0.6:
        return ("Call", sub(), [(sub(), rng.random() < 0.2) for _ in range(rng.randrange(0, 3))])
    if c < 0.68:
        return ("Index", sub(), sub())
    if c < 0.76:
        return ("RangeIndex", sub(), sub() if rng.random() < 0.7 else None, sub() if rng.random() < 0.7 else None)
    if c < 0.86:
        return ("Prop", sub(), rng.choice(["p", "len", "type", "k1"]), rng.random() < 0.5)
    if c < 0.94:
        return ("List", [(sub(), rng.random() < 0.2) for _ in range(rng.randrange(0, 3))])
    return ("Object", [(rng.choice([("Str", "k"), ("Var", "a"), sub()]), sub()) for _ in range(rng.randrange(0, 3))])


def shape_sig(e, d=0):
    k = e[0]
    if d >= 3:
        return k[0]
    if k == "Bin":
        return f"B{TIER[e[1]]}({shape_sig(e[2], d + 1)}{shape_sig(e[3], d + 1)})"
    if k == "Range":
        return f"R({shape_sig(e[1], d + 1)}{shape_sig(e[2], d + 1)})"
    if k in ("Call", "Index", "RangeIndex", "Prop"):
        return f"{k[0]}{k[1]}({shape_sig(e[1], d + 1)})"
    return k[0]


# ------------------------------------------------------------------------------------------ the check
HEAD = "(Prog [(Declare (E (Var x72)) "
EXPECT = re.compile(r"\A# C08 expected tree: (.*)\n")


def program(text):
    return f"r := {text}\n"


def dump_tree(block):
    b = L.erase_positions(block.strip())
    if b.startswith(HEAD) and b.endswith(")])"):
        return b[len(HEAD):-3]
    return b


VALUES = ["7", "2", "1", "0", "-1", "3", "9223372036854775807", "true", "false", '"a"', "[1]", "null", "[]", '"b"']


def outcome(r):
    return (r["stdout"], r["status"], re.sub(r"\d+:\d+", "", r["stderr"]))


def grouping_programs(ops, vals):
    """flat, left-grouped and right-grouped print of `A op1 B op2 C` with the operand values written in place"""
    leaves = [lit(v) for v in vals]
    left = fill(((None, None), None), ops, leaves)
    right = fill((None, (None, None)), ops, leaves)
    flat = None
    for t in (left, right):
        if "(" not in strip_lits(render(t, "min")):
            flat = t
    pl = "print(" + render(left, "full") + ")\n"
    pr = "print(" + render(right, "full") + ")\n"
    return flat, left, right, pl, pr


def lit(v):
    if re.fullmatch(r"-?\d+", v):
        return ("Int", int(v))
    return {"true": ("Bool", True), "false": ("Bool", False), "null": ("Null",), "[]": ("List", []),
            "[1]": ("List", [(("Int", 1), False)]), '"a"': ("Str", "a"), '"b"': ("Str", "b")}[v]


def strip_lits(s):
    return s


def confirm_pairs(ctx, rng):
    """every ordered pair of operators: find operand values for which the two explicit groupings behave differently
    (the implementation evaluates both), then the flat text must behave like the documented grouping — through the CLI"""
    pairs = list(itertools.product(OPS16, repeat=2))
    todo = set(pairs)
    found = {}
    order = [("7", "2", "1"), ("true", "false", "true"), ("1", "true", "true"), ("true", "1", "1"), ('"a"', "1", "2"),
             ("9223372036854775807", "1", "-1"), ("9223372036854775807", "2", "0"), ("1", "2", '"a"'), ("[1]", "[1]", "1"),
             ("7", "-1", "3"), ("1", "1", "true"), ("true", "true", "1"), ("0", "1", "[1]"), ("[1]", "1", "2"),
             ("null", "1", "true"), ("1", "null", "2")]
    order += [tuple(rng.choice(VALUES) for _ in range(3)) for _ in range(40 if ctx.tier == "quick" else 120)]
    for vals in order:
        if not todo:
            break
        batch = sorted(todo)
        progs_ = []
        for ops in batch:
            _, _, _, pl, pr = grouping_programs(ops, vals)
            progs_ += [pl, pr]
        res = core.run_batch("impl", progs_)
        ctx.count("grouping-search:run", len(progs_))
        for i, ops in enumerate(batch):
            if outcome(res[2 * i]) != outcome(res[2 * i + 1]):
                found[ops] = vals
                todo.discard(ops)
    for ops in sorted(todo):
        ctx.exclude("no_distinguishing_operands_found:" + "/".join(ops))
    cases = []
    for ops, vals in sorted(found.items()):
        flat, left, right, pl, pr = grouping_programs(ops, vals)
        cases.append((ops, vals, flat, left, right, "print(" + render(flat, "min") + ")\n", pl, pr))
    res = core.cli_batch([p for c in cases for p in c[5:8]])
    ctx.count("grouping:cli", len(res))
    ctx.cov["cli_reconfirmed"] += len(res)
    for i, (ops, vals, flat, left, right, pf, pl, pr) in enumerate(cases):
        rf, rl, rr = res[3 * i:3 * i + 3]
        want, other = (rl, rr) if flat is left else (rr, rl)
        ctx.dist("cli-grouping:" + ("left" if flat is left else "right"))
        ctx.nontrivial(("cli", ops))
        if outcome(rf) != outcome(want) or outcome(rf) == outcome(other):
            ctx.violation(f"C08: `{pf.strip()}` does not group as documented ({'left' if flat is left else 'right'} grouping expected)",
                          f"# C08 expected tree: {sexp(('Call', ('Var', 'print'), [(flat, False)]))}\n" + pf,
                          {"flat": pf, "flat_cli": rf, "left_grouped": pl, "left_cli": rl, "right_grouped": pr, "right_cli": rr})
    return found


def confirm_ast_failure(ctx, rng, tree, text):
    """an AST mismatch: look for variable values that make the printed text and the fully parenthesised text of the same
    tree behave differently through the CLI"""
    full = render(tree, "full")
    tries = []
    for _ in range(40):
        binds = "".join(f"{v} := {rng.choice(VALUES)}\n" for v in VARS)
        tries.append((binds + f"print({text})\n", binds + f"print({full})\n"))
    res = core.cli_batch([p for t in tries for p in t])
    ctx.cov["cli_reconfirmed"] += len(res)
    for i, (p1, p2) in enumerate(tries):
        if outcome(res[2 * i]) != outcome(res[2 * i + 1]):
            return p1, p2, res[2 * i], res[2 * i + 1]
    return None


def run(ctx, model_ok):
    rng = ctx.rng
    thorough = ctx.tier == "thorough"
    nops = 3 if thorough else 2
    cases = []        # (stream, tree, variant, text)

    def add(stream, tree, variants=("min", "full", "extra", "extra", "extra")):
        for v in variants:
            cases.append((stream, tree, v, render(tree, v, rng)))
        if "min" in variants and stream != "seq3":
            # the same minimal text with every optional blank removed (`xs[i]-1`, `a<-3`, `1..2`): grouping is a matter of
            # tokens, not of spacing
            cases.append((stream, tree, "compact", compact(render(tree, "min", rng))))

    leaves = [("Var", v) for v in VARS]
    flat_of = {}
    for ops in itertools.product(OPS16, repeat=nops):
        nflat = 0
        for sh in shapes(nops):
            t = fill(sh, ops, leaves)
            add(f"seq{nops}", t)
            if "(" not in render(t, "min"):
                nflat += 1
                flat_of[ops] = (sh, t)
        assert nflat == 1, ops       # the documented tiers make the grouping of a flat sequence a function
    for ops, (sh, t) in flat_of.items():
        for pos in range(nops + 1):
            for d in DECOS:
                lv = list(leaves)
                lv[pos] = decorate(d, lv[pos])
                add(f"seq{nops}+postfix", fill(sh, ops, lv), ("min", "extra"))
                if thorough and rng.random() < 0.15:
                    add(f"seq{nops}+postfix", fill(rng.choice(shapes(nops)), ops, lv), ("min", "extra"))
    n4 = 100000 if thorough else 3000
    for _ in range(n4):
        ops = tuple(rng.choice(OPS16) for _ in range(4))
        lv = [decorate(rng.choice(DECOS), l) if rng.random() < 0.2 else l for l in leaves]
        add("seq4-random", fill(rng.choice(shapes(4)), ops, lv), ("min", "extra"))
    for _ in range(150000 if thorough else 6000):
        add("random-tree", random_tree(rng, rng.randrange(2, 9)), ("min", "full", "extra"))
    ctx.cov["exhaustive"] = True
    srcs = [program(c[3]) for c in cases]
    uniq = list(dict.fromkeys(srcs))
    blocks = dict(zip(uniq, core.batch("impl", "ast", uniq)))
    ctx.count("trees:ast", len(srcs))
    bad = []
    for (stream, tree, variant, text), src in zip(cases, srcs):
        got = dump_tree(blocks[src])
        ctx.dist(f"{stream}:{variant}")
        if stream.startswith("seq"):
            ctx.nontrivial((stream, variant, tuple(sorted(set(re.findall(r"BinaryOp (\w+)|(Range)", got))))))
        else:
            ctx.nontrivial((stream, variant, shape_sig(tree)))
        if got != sexp(tree):
            bad.append((stream, tree, variant, text, got))
    # ---- failures: confirm through the CLI
    bad.sort(key=lambda b: len(b[3]))
    seen = set()
    for stream, tree, variant, text, got in bad:
        key = (stream, variant, got[:3] == "ERR")
        if key in seen or len(seen) >= 6:
            continue
        seen.add(key)
        conf = confirm_ast_failure(ctx, rng, tree, text)
        details = {"text": text, "expected_tree": sexp(tree), "parsed_tree": got, "variant": variant, "stream": stream,
                   "failing_texts_in_run": len(bad)}
        if conf:
            p1, p2, r1, r2 = conf
            details.update({"printed": p1, "printed_cli": r1, "fully_parenthesised": p2, "fully_parenthesised_cli": r2})
            ctx.violation(f"C08: `{text}` is not parsed as the tree it was printed from ({variant} parentheses)",
                          f"# C08 expected tree: {sexp(('Call', ('Var', 'print'), [(tree, False)]))}\n" + p1, details)
        else:
            # The property is about the *parsed program*; the syntax-tree dump is the implementation's own account of it.
            # Twice the same answer from two independent dumps (program form and expression form) is taken as observed,
            # even when no operand values make the two groupings print differently through the CLI.
            again = dump_tree(core.batch("impl", "ast", [program(text)])[0])
            details["observed_through"] = "syntax-tree hook only (no operand values distinguish the groupings through the CLI)"
            if again == got and got != sexp(tree):
                ctx.violation(f"C08: `{text}` is not parsed as the tree it was printed from ({variant} parentheses)",
                              f"# C08 expected tree: {sexp(tree)}\n" + program(text), details)
            else:
                ctx.unproved("ast:roundtrip", f"`{text}` ({variant} parentheses) is not parsed as the tree it was printed from; "
                             "the dump did not reproduce", details)
    # ---- grouping of every operator pair through the CLI
    confirm_pairs(ctx, rng)
    # ---- grouping is also what is EVALUATED: values at the 64-bit edge tell `a + (b + c)` from `(a + b) + c`, and a `-` in
    # front of a literal is a sign only where an operand can start (the magnitude 2^63 has no literal)
    MAXI = 2 ** 63 - 1
    edge = [
        ("big := 9223372036854775807\nd := 0 - 1\nprint(big + (1 + d))\n", f"{MAXI}\n", "0"),
        ("big := 9223372036854775807\nd := 0 - 1\nprint(big + 1 + d)\n", "", "103"),
        ("big := 9223372036854775807\nprint(big - (1 - 2))\n", "", "103"),
        ("big := 9223372036854775807\nprint(big - 1 - (0 - 1))\n", f"{MAXI}\n", "0"),
        ("low := 0 - 9223372036854775807 - 1\nprint(low - (0 - 1) - 1)\n", f"{-MAXI - 1}\n", "0"),
        ("low := 0 - 9223372036854775807 - 1\nprint(low - ((0 - 1) + 1))\n", f"{-MAXI - 1}\n", "0"),
        ("x := 3037000500\nprint(x * (x / x))\n", "3037000500\n", "0"),
        ("x := 3037000500\nprint(x * x / x)\n", "", "103"),
        ("i := 9223372036854775807\nprint(i + 1 - 2)\n", "", "103"),
        ("i := 9223372036854775807\nprint(i - 2 + 1)\n", f"{MAXI - 1}\n", "0"),
        ("print(-1 -9223372036854775808)\n", "", "103"), ("print(0 - 9223372036854775808)\n", "", "103"),
        ("print(-9223372036854775808)\n", "", "103"), ("x := [1]\nprint(x[0] -9223372036854775808)\n", "", "103"),
        ("print(-9223372036854775807 - 1)\n", f"{-MAXI - 1}\n", "0"), ("print(3 -2)\nprint(3 - -2)\nprint([3 -2])\nprint([3, -2])\n", "1\n5\n[\n    1,\n]\n[\n    3,\n    -2,\n]\n", "0"),
    ]
    # redundant parentheses leave no trace in the tree: any number of them, around any operand, changes nothing
    for depth in (3, 64, 127, 128, 129, 130, 200, 256, 257, 300, 512, 1000, 3000):
        op, cl = "(" * depth, ")" * depth
        edge += [(f"print({op}1 + 2{cl} * 3)\n", "9\n", "0"), (f"print(2 * {op}3 - 1{cl})\n", "4\n", "0"),
                 (f"x := 5\nprint({op}x{cl} - {op}1 - 1{cl})\n", "5\n", "0"),
                 (f"xs := [4, 5]\nprint(xs[{op}0 + 1{cl}] - 1 - 1)\n", "3\n", "0"),
                 (f"fn f(a) {{\n    return a\n}}\nprint(f({op}1{cl}) + {op}f(2) * 2{cl})\n", "5\n", "0")]
    for depth in (129, 300):          # … spread over several places that are each shallow
        half = "(" * (depth // 2)
        flah = ")" * (depth // 2)
        edge.append((f"print({half}1 + 1{flah} * {half}2 + 1{flah} - {half}{half}1{flah}{flah})\n", "5\n", "0"))
    eres = core.cli_batch([e[0] for e in edge])
    ctx.count("edge-values:cli", len(edge))
    for (src, out, st), r in zip(edge, eres):
        ctx.nontrivial(("edge", src[-40:]))
        if (r["stdout"], r["status"]) != (out, st) or "panicked" in r["stderr"]:
            ctx.violation(f"C08: the grouping that is evaluated is not the documented one: expected stdout {out!r} and status {st}",
                          src, {"cli": r, "length": len(src)})
            break
    if model_ok:
        _, edis = tie.run(ctx, [e[0] for e in edge], "edge-values", model_ok)
        tie.report_disagreements(ctx, edis, "edge-values")
    # ---- leg B: model vs implementation, trees with positions
    if model_ok:
        k = 100000 if thorough else 6000
        pick = uniq if len(uniq) <= k else rng.sample(uniq, k)
        tie.front(ctx, "ast", pick, "trees", model_ok)
    for stream in ("seq2", "seq3", "seq2+postfix", "seq3+postfix", "seq4-random", "random-tree"):
        for c in cases:
            if c[0] == stream and c[2] == "extra":
                ctx.sample({"stream": stream, "text": c[3][:200], "tree": sexp(c[1])[:300]})
                break


def oracle_one(ctx, src, r):
    m = EXPECT.match(src)
    if not m:
        return True, ""
    body = src[m.end():]
    blk = core.batch("impl", "ast", [body])[0]
    got = L.erase_positions(blk.strip())
    want = m.group(1)
    if want not in got:
        return False, f"the last statement is not parsed as the expected tree\nexpected: {want}\nparsed:   {got}"
    return True, ""
