"""C07 — control flow: branches, loops, break/continue/return reach exactly their target."""
import itertools
import core
import tie
import lib_c07plan as plan

RULE = ("programs generated from a plan: every chain of depth <= 3 (quick) / <= 4 (thorough) over {bare block, if-true, "
        "if-false-else, else-if, while, for over list/string/object, call} with break/continue/return/nothing in the innermost "
        "body, every truth assignment of 3-condition if-chains, loop bodies that mutate the iterated container; the trace is "
        "predicted by a plan interpreter in the harness (no model involved); non-trivial = distinct predicted (trace, status): "
        "plans that are predicted to behave alike count once; exit shapes: loops (`while true` / `while (true)` / instrumented / "
        "counted `while`, `for` over range/list/string/object) left by break / return / continue-then-break at the end of every "
        "chain (depth <= 2) of positions {bare block, then, then without else, else, else-if, else-if without else, else after "
        "else-if} guarded by the pass counter, with statements after the chain and after the loop, inside {top level, call, outer "
        "loop, if, block, call in a loop}; random plans (every construct, several jump sites, counter-dependent conditions, only the "
        "ones the plan interpreter sees terminate); `for` over strings with 2-/3-/4-byte characters (one pass per byte: keys, "
        "pass count, value = byte at the key, reassembly, a jump at every byte index, literal / variable / concatenation / slice "
        "iterables) and over objects whose keys are inserted out of order (prefixes, digits, empty, non-ASCII) with a jump at "
        "every position; long runs: thousands of passes each leaving 1-3 blocks by continue / break / return, then plain and "
        "recursive calls whose values are predicted")
ASSUMPTIONS = ["conditions are instrumented through a user function t(tag, b) that prints its tag, so evaluation order is observable"]

KINDS = ["block", "ift", "ife", "elif", "while", "forl", "fors", "foro", "call"]
JUMPS = ["none", "break", "continue", "return 7"]

PRELUDE = "fn t(tag, b) {\n    print(tag)\n    return b\n}\nprint(\"start\")\n"


class Jump(Exception):
    def __init__(self, kind):
        self.kind = kind


class RuntimeErr(Exception):
    pass


def gen(chain, jump, depth=0, uid=None):
    """returns (lines, interp) where interp(out) simulates the fragment appending printed lines to out"""
    uid = uid if uid is not None else [0]
    ind = "    " * depth
    if not chain:
        lines = [ind + f'print("in{depth}")']
        if jump != "none":
            lines.append(ind + jump)
        lines.append(ind + f'print("after{depth}")')

        def run(out):
            out.append(f"in{depth}")
            if jump != "none":
                raise Jump(jump.split()[0])
            out.append(f"after{depth}")
        return lines, run
    k, rest = chain[0], chain[1:]
    uid[0] += 1
    n = uid[0]
    body, run_body = gen(rest, jump, depth + 1, uid)
    pre = [ind + f'print("pre{n}")']
    post = [ind + f'print("post{n}")']
    if k == "block":
        lines = pre + [ind + "{"] + body + [ind + "}"] + post

        def run(out):
            out.append(f"pre{n}")
            run_body(out)
            out.append(f"post{n}")
    elif k == "ift":
        lines = pre + [ind + f'if t("c{n}", true) {{'] + body + [ind + "} else {", ind + f'    print("no{n}")', ind + "}"] + post

        def run(out):
            out.append(f"pre{n}")
            out.append(f"c{n}")
            run_body(out)
            out.append(f"post{n}")
    elif k == "ife":
        lines = pre + [ind + f'if t("c{n}", false) {{', ind + f'    print("no{n}")', ind + "} else {"] + body + [ind + "}"] + post

        def run(out):
            out.append(f"pre{n}")
            out.append(f"c{n}")
            run_body(out)
            out.append(f"post{n}")
    elif k == "elif":
        lines = pre + [ind + f'if t("c{n}a", false) {{', ind + f'    print("no{n}")', ind + f'}} else if t("c{n}b", true) {{'] + body + \
            [ind + f'}} else if t("c{n}c", true) {{', ind + f'    print("no{n}")', ind + "} else {", ind + f'    print("no{n}")', ind + "}"] + post

        def run(out):
            out.append(f"pre{n}")
            out.append(f"c{n}a")
            out.append(f"c{n}b")
            run_body(out)
            out.append(f"post{n}")
    elif k == "while":
        lines = pre + [ind + f"i{n} := 0", ind + f'while t("w{n}", i{n} < 2) {{', ind + f"    i{n} += 1"] + body + [ind + "}"] + post

        def run(out):
            out.append(f"pre{n}")
            i = 0
            while True:
                out.append(f"w{n}")
                if not i < 2:
                    break
                i += 1
                try:
                    run_body(out)
                except Jump as j:
                    if j.kind == "break":
                        break
                    if j.kind == "continue":
                        continue
                    raise
            out.append(f"post{n}")
    elif k in ("forl", "fors", "foro"):
        it, pairs = {"forl": ('["x", "y"]', [("0", "x"), ("1", "y")]), "fors": ('"pq"', [("0", "p"), ("1", "q")]),
                     "foro": ('{"b": "vb", "a": "va"}', [("a", "va"), ("b", "vb")])}[k]
        lines = pre + [ind + f"for [k{n}, v{n}] in {it} {{", ind + f"    print(k{n})", ind + f"    print(v{n})"] + body + [ind + "}"] + post

        def run(out):
            out.append(f"pre{n}")
            for kk, vv in pairs:
                out.append(kk)
                out.append(vv)
                try:
                    run_body(out)
                except Jump as j:
                    if j.kind == "break":
                        break
                    if j.kind == "continue":
                        continue
                    raise
            out.append(f"post{n}")
    else:  # call
        lines = pre + [ind + f"fn f{n}() {{"] + body + [ind + f'    print("fend{n}")', ind + "}", ind + f"r{n} := f{n}()", ind + f"print(r{n})"] + post

        def run(out):
            out.append(f"pre{n}")
            try:
                run_body(out)
                out.append(f"fend{n}")
                out.append("<null>")
            except Jump as j:
                if j.kind == "return":
                    out.append("7")
                else:
                    raise RuntimeErr(j.kind)
            out.append(f"post{n}")
    return lines, run


def program(chain, jump):
    lines, run = gen(list(chain), jump)
    src = PRELUDE + "\n".join(lines) + '\nprint("end")\n'
    out = ["start"]
    status = "0"
    try:
        run(out)
        out.append("end")
    except (Jump, RuntimeErr):
        status = "103"
    return src, "".join(l + "\n" for l in out), status


def if_chain_programs():
    progs = []
    for bits in itertools.product([False, True], repeat=3):
        for has_else in (False, True):
            b = ["true" if x else "false" for x in bits]
            src = PRELUDE + f'if t("c1", {b[0]}) {{\n    print("b1")\n}} else if t("c2", {b[1]}) {{\n    print("b2")\n}} else if t("c3", {b[2]}) {{\n    print("b3")\n}}'
            src += ' else {\n    print("else")\n}\n' if has_else else "\n"
            src += 'print("end")\n'
            out = ["start"]
            taken = False
            for i, x in enumerate(bits):
                out.append(f"c{i+1}")
                if x:
                    out.append(f"b{i+1}")
                    taken = True
                    break
            if not taken and has_else:
                out.append("else")
            out.append("end")
            progs.append((src, "".join(l + "\n" for l in out), "0"))
    return progs


def empty_branch_programs():
    """a taken branch ends the chain also when its body is empty (or only a comment): no later condition is evaluated and no
    later branch or `else` runs"""
    progs = []
    bodies = {"full": None, "empty": "{}", "comment": "{\n    # nothing\n}", "blank": "{\n\n}", "semicolon": "{ ; }"}
    for bits in itertools.product([False, True], repeat=3):
        for has_else in (False, True):
            for which in range(3):
                for style in ("empty", "comment", "blank", "semicolon"):
                    b = ["true" if x else "false" for x in bits]
                    parts = []
                    for i in range(3):
                        body = bodies[style] if i == which else f'{{\n    print("b{i + 1}")\n}}'
                        parts.append(f'{"if" if i == 0 else "else if"} t("c{i + 1}", {b[i]}) {body}')
                    src = PRELUDE + " ".join(parts)
                    src += ' else {\n    print("else")\n}\n' if has_else else "\n"
                    src += 'print("end")\n'
                    out = ["start"]
                    taken = False
                    for i, x in enumerate(bits):
                        out.append(f"c{i + 1}")
                        if x:
                            if i != which:
                                out.append(f"b{i + 1}")
                            taken = True
                            break
                    if not taken and has_else:
                        out.append("else")
                    out.append("end")
                    progs.append((src, "".join(l + "\n" for l in out), "0"))
    # an empty `else`, an empty loop body, an empty function body, an empty bare block: nothing happens, the rest runs
    progs.append((PRELUDE + 'if t("c1", false) {\n    print("b1")\n} else {}\nprint("end")\n', "start\nc1\nend\n", "0"))
    progs.append((PRELUDE + 'for [i, v] in [1, 2] {}\nwhile t("w", false) {}\n{}\nfn e() {}\nprint(e())\nprint("end")\n',
                  "start\nw\n<null>\nend\n", "0"))
    progs.append((PRELUDE + 'for [i, v] in [1, 2, 3] {\n    if v == 1 {} else if v == 2 {\n        break\n    }\n    print(v)\n}\nprint("end")\n',
                  "start\n1\nend\n", "0"))
    return progs


def kept_pair_programs():
    """`for` binds a pair of its own in every iteration: pairs (and closures over them) kept past their iteration keep their
    values and are distinct lists"""
    ps = []
    ps.append(("keep := []\nfor p in [\"a\", \"b\", \"c\"] {\n    keep += [p]\n}\nprint(keep)\nprint(keep[0] === keep[1])\nkeep[0][1] = \"z\"\nprint(keep[1])\n",
               "[\n    [\n        0,\n        a,\n    ],\n    [\n        1,\n        b,\n    ],\n    [\n        2,\n        c,\n    ],\n]\nfalse\n[\n    1,\n    b,\n]\n"))
    ps.append(("fs := []\nfor p in {\"x\": 1, \"y\": 2} {\n    fs += [fn() { return p; }]\n}\nfor [_, f] in fs {\n    print(f()[0])\n    print(f()[1])\n}\n",
               "x\n1\ny\n2\n"))
    ps.append(("last := null\nhave := false\nfor p in \"ab\" {\n    if have {\n        print(last[1])\n    }\n    last = p\n    have = true\n}\nprint(last)\n",
               "a\n[\n    1,\n    b,\n]\n"))
    ps.append(("keep := []\nfor [i, v] in [[1], [2]] {\n    keep += [v]\n}\nkeep[0][0] = 9\nprint(keep[1][0])\n", "2\n"))
    ps.append(("first := null\nhave := false\nfor p in 5 .. 8 {\n    if have == false {\n        first = p\n        have = true\n    }\n}\nprint(first[0] + first[1])\n", "5\n"))
    return [(s, o, "0") for s, o in ps]


def continue_scope_programs():
    """`continue` ends the iteration like its normal end does: the next iteration starts from scratch (its own scope), and the
    loop goes on to exactly the iterations that remain"""
    loops = {"while": "i := 0\nwhile i < 3 {\n    i += 1\n@B}\nprint(\"done\")\n", "for": "for [k, i] in [1, 2, 3] {\n@B}\nprint(\"done\")\n",
             "for-object": "for [k, i] in {\"a\": 1, \"b\": 2, \"c\": 3} {\n@B}\nprint(\"done\")\n"}
    bodies = [
        ("    half := i * 10\n    if i < 3 {\n        continue\n    }\n    print(half)\n", "30\ndone\n"),
        ("    half := i * 10\n    print(half)\n    continue\n", "10\n20\n30\ndone\n"),
        ("    {\n        tmp := i\n        if i == 1 {\n            continue\n        }\n    }\n    tmp := i * 2\n    print(tmp)\n", "4\n6\ndone\n"),
        ("    fn h() {\n        return i\n    }\n    if i == 2 {\n        continue\n    }\n    print(h())\n", "1\n3\ndone\n"),
        ("    acc := []\n    acc += [i]\n    if i == 1 {\n        continue\n    }\n    print(acc)\n", "[\n    2,\n]\n[\n    3,\n]\ndone\n"),
        ("    j := 0\n    while j < 2 {\n        j += 1\n        inner := j\n        if j == 1 {\n            continue\n        }\n        print(i * 10 + inner)\n    }\n",
         "12\n22\n32\ndone\n"),
    ]
    return [(tmpl.replace("@B", b), o, "0") for tmpl in loops.values() for b, o in bodies]


def mutation_programs():
    """loop bodies that mutate the iterated container: `for` walks a snapshot taken at entry"""
    ps = []
    ps.append(("xs := [1, 2, 3]\nfor [i, v] in xs {\n    xs += [v * 10]\n    print(v)\n}\nprint(xs->type())\nfor [i, v] in xs {\n    print(v)\n}\n",
               "1\n2\n3\nlist\n1\n2\n3\n10\n20\n30\n"))
    ps.append(("xs := [1, 2, 3]\nfor [i, v] in xs {\n    xs[2] = 9\n    print(v)\n}\n", "1\n2\n3\n"))
    ps.append(("xs := [1, 2, 3]\nfor [i, v] in xs {\n    xs = []\n    print(v)\n}\nfor [i, v] in xs {\n    print(\"never\")\n}\nprint(\"done\")\n", "1\n2\n3\ndone\n"))
    ps.append(("o := {\"b\": 1, \"a\": 2}\nfor [k, v] in o {\n    o[\"c\" + k] = v\n    print(k)\n}\nfor [k, v] in o {\n    print(k)\n}\n", "a\nb\na\nb\nca\ncb\n"))
    ps.append(("s := \"ab\"\nfor [i, c] in s {\n    s += \"z\"\n    print(c)\n}\nprint(s)\n", "a\nb\nabzz\n"))
    ps.append(("i := 0\nwhile i < 3 {\n    i += 1\n    if i == 2 {\n        continue\n    }\n    print(i)\n}\n", "1\n3\n"))
    ps.append(("fn f() {\n    for [i, v] in [1, 2, 3] {\n        while true {\n            {\n                if v == 2 {\n                    return v\n                }\n            }\n            break\n        }\n        print(v)\n    }\n    return 0\n}\nprint(f())\n", "1\n2\n"))
    # the snapshot is taken whatever expression names the iterable: a variable, a property, an element, a call result
    pre = ('xs := [1, 2, 3]\nob := {"a": 1, "b": 2, "c": 3}\nw := {"xs": xs, "ob": ob, "get": fn() { return this.xs; }, "geto": fn() { return this.ob; }}\n'
           'rows := [xs, ob]\nfn get() {\n    return xs\n}\nfn geto() {\n    return ob\n}\nfn id(v) {\n    return v\n}\n')
    for it in ["xs", "(xs)", "w.xs", 'w["xs"]', "rows[0]", "get()", "w.get()", "id(xs)", "id(w).xs", "[xs][0]"]:
        ps.append((pre + f"for [i, v] in {it} {{\n    xs[2] = 9\n    xs[1] = 8\n    xs += [7]\n    print(v)\n}}\nprint(xs[2])\n", "1\n2\n3\n9\n"))
    for it in ["ob", "(ob)", "w.ob", 'w["ob"]', "rows[1]", "geto()", "w.geto()", "id(ob)", "{\"k\": ob}.k"]:
        ps.append((pre + f"for [k, v] in {it} {{\n    ob.c = 9\n    ob.b = 8\n    ob.d = 7\n    print(v)\n}}\nprint(ob.c)\n", "1\n2\n3\n9\n"))
    return [(s, o, "0") for s, o in ps]


def toplevel_jump_programs():
    out = []
    for j in ("break", "continue", "return 1"):
        out.append((f'print("a")\n{j}\nprint("b")\n', "a\n", "103"))
        out.append((f'print("a")\n{{\n    {j}\n}}\nprint("b")\n', "a\n", "103"))
        out.append((f'print("a")\nif true {{\n    {j}\n}}\nprint("b")\n', "a\n", "103"))
    return out


# ---------------------------------------------------------------------------------------------------------------- exit shapes
def exit_shape_cases(ctx):
    """loops left by a jump at the end of a chain of block / if-arm positions; see lib_c07plan.exit_shape"""
    if ctx.tier == "thorough":
        keys = list(plan.exit_shape_plans(2))
    else:
        # every chain of depth <= 2 at top level and in a call for the loop heads that differ in kind; the other loop heads and
        # wrappers with the chains of depth 1, plus a seeded sample of the rest
        main_loops = ["wtrue", "wt", "wlt", "forl"]
        keys = list(plan.exit_shape_plans(2, loops=main_loops, wrappers=["top", "fn"]))
        have = set(keys)
        keys += [k for k in plan.exit_shape_plans(1) if k not in have]
        have = set(keys)
        rest = [k for k in plan.exit_shape_plans(2) if k not in have]
        keys += ctx.rng.sample(rest, 400)
    cases = []
    for k in keys:
        body = plan.exit_shape(*k)
        try:
            out, st = plan.predict(body)
        except plan.NonTerminating:                      # a chain of bare blocks only: its `continue` is taken on every pass
            ctx.exclude("exit_shape_nonterminating")
            continue
        cases.append((("exit",) + k, plan.source(body), out, st))
    return cases


def random_plan_cases(ctx):
    want = 4000 if ctx.tier == "thorough" else 600
    cases = []
    tries = 0
    while len(cases) < want and tries < want * 4:
        tries += 1
        body = plan.random_plan(ctx.rng, max_depth=ctx.rng.choice([3, 4, 5]))
        try:
            out, st = plan.predict(body, limit=1500)
        except plan.NonTerminating:
            ctx.exclude("random_plan_nonterminating")
            continue
        if out.count("\n") < 4 or len(body) > 0 and len(plan.source(body)) > 8000:
            continue                                    # ends before anything happens
        cases.append((("random", len(cases)), plan.source(body), out, st))
    return cases


# ---------------------------------------------------------------------------------------------------------------- iteration order
STRINGS = ["", "a", "abc", "é", "aé", "éa", "éé", "€", "a€b", "€1", "𝄞", "x𝄞y", "naïve", "日本", "añ€𝄞z"]


def _lit(s):
    return '"' + s + '"'


def string_byte_programs():
    """`for` over a string: one pass per byte, keys 0 .. n-1, the value is the byte at the key (`c == s[i]`, never empty), the
    values put together give the text back (printed whole, and at the end of every character: only complete characters are
    printed), and a jump keyed on any byte index - also one inside a character - fires exactly there"""
    ps = []
    tf = {True: "true", False: "false"}
    for s in STRINGS:
        b = s.encode()
        n = len(b)
        ends = []
        pos = 0
        for ch in s:
            pos += len(ch.encode())
            ends.append(pos - 1)
        walk = (f"s := {_lit(s)}\npasses := 0\nacc := \"\"\nfor [i, c] in s {{\n    passes += 1\n    print(i)\n    print(c == s[i])\n"
                "    print(c == \"\")\n    acc += c\n}\nprint(passes)\nprint(acc)\nprint(acc == s)\n")
        ps.append((("str-walk", s), walk, "".join(f"{i}\ntrue\nfalse\n" for i in range(n)) + f"{n}\n{s}\ntrue\n", "0"))
        for e in ends:
            if n > 1:
                src = f"acc := \"\"\nfor [i, c] in {_lit(s)} {{\n    acc += c\n    if i == {e} {{\n        print(acc)\n    }}\n}}\nprint(\"done\")\n"
                ps.append((("str-prefix", s, e), src, b[:e + 1].decode() + "\ndone\n", "0"))
        for j in range(n):
            for jump in ("break", "continue", "return i + 1000"):
                src = (f"fn walk(s) {{\n    seen := 0\n    for [i, c] in s {{\n        if i == {j} {{\n            {jump}\n        }}\n"
                       "        seen += 1\n        print(i)\n    }\n    print(\"after\")\n    return seen\n}\n" + f"print(walk({_lit(s)}))\n")
                if jump == "break":
                    out = "".join(f"{i}\n" for i in range(j)) + f"after\n{j}\n"
                elif jump == "continue":
                    out = "".join(f"{i}\n" for i in range(n) if i != j) + f"after\n{n - 1}\n"
                else:
                    out = "".join(f"{i}\n" for i in range(j)) + f"{1000 + j}\n"
                ps.append((("str-jump", s, j, jump.split()[0]), src, out, "0"))
        # the iterable given by other expressions: a variable, a concatenation (also one that cuts a character in two), a slice
        # that starts or ends inside a character (its text is not printable: compared instead), a grown copy (snapshot)
        for k in range(n + 1):
            for name, expr, bb in (("cat", f"s[:{k}] + s[{k}:]", b), ("tail", f"s[{k}:]", b[k:]), ("head", f"s[:{k}]", b[:k])):
                if n == 0 or (name == "cat" and k in (0, n)):
                    continue
                src = (f"s := {_lit(s)}\nu := {expr}\npasses := 0\nok := true\nacc := \"\"\nfor [i, c] in {expr} {{\n    passes += 1\n    print(i)\n"
                       "    ok = ok && c == u[i]\n    acc += c\n}\nprint(passes)\nprint(ok)\nprint(acc == u)\n")
                ps.append((("str-" + name, s, k), src, "".join(f"{i}\n" for i in range(len(bb))) + f"{len(bb)}\ntrue\ntrue\n", "0"))
        if n:
            src = f"s := {_lit(s)}\npasses := 0\nfor [i, c] in s {{\n    s += \"é\"\n    s = \"é\" + s\n    passes += 1\n}}\nprint(passes)\nprint(s->len())\n"
            ps.append((("str-grow", s), src, f"{n}\n{n + 4 * n}\n", "0"))
    return ps


OBJECT_KEYS = [["b", "a"], ["b", "ab", "a", "ba"], ["9", "10", "1"], ["z", "", "a"], ["é", "z", "e", "f"], ["abc", "ab", "a", "b", "aa"],
               ["k2", "k10", "k1"], ["€", "é", "~", "a"]]


def object_order_programs():
    """`for` over an object walks its properties by ascending key (keys are strings: byte order = code point order) whatever
    the order they were written or added in; a jump at any position stops / skips exactly there; lists go by index"""
    ps = []
    for keys in OBJECT_KEYS:
        order = sorted(keys, key=lambda k: k.encode())
        val = {k: 10 + i for i, k in enumerate(keys)}
        builds = {"literal": "o := {" + ", ".join(f"{_lit(k)}: {val[k]}" for k in keys) + "}\n",
                  "added": "o := {}\n" + "".join(f"o[{_lit(k)}] = {val[k]}\n" for k in keys),
                  "reversed": "o := {" + ", ".join(f"{_lit(k)}: {val[k]}" for k in reversed(keys)) + "}\n"}
        for bname, build in builds.items():
            src = build + "for [k, v] in o {\n    print(k)\n    print(v)\n}\nprint(\"done\")\n"
            ps.append((("obj-walk", tuple(keys), bname), src, "".join(f"{k}\n{val[k]}\n" for k in order) + "done\n", "0"))
        for p in range(len(keys)):
            for jump in ("break", "continue", "return v + 1000"):
                src = (builds["literal"] + f"fn walk() {{\n    seen := 0\n    for [k, v] in o {{\n        if k == {_lit(order[p])} {{\n            {jump}\n"
                       "        }\n        seen += 1\n        print(k)\n    }\n    print(\"after\")\n    return seen\n}\nprint(walk())\n")
                if jump == "break":
                    out = "".join(f"{k}\n" for k in order[:p]) + f"after\n{p}\n"
                elif jump == "continue":
                    out = "".join(f"{k}\n" for k in order if k != order[p]) + f"after\n{len(keys) - 1}\n"
                else:
                    out = "".join(f"{k}\n" for k in order[:p]) + f"{1000 + val[order[p]]}\n"
                ps.append((("obj-jump", tuple(keys), p, jump.split()[0]), src, out, "0"))
    for n in (0, 1, 4):
        xs = [3 * i + 1 for i in range(n)]
        for j in range(n):
            for jump in ("break", "continue", "return v + 1000"):
                src = (f"fn walk(xs) {{\n    seen := 0\n    for [i, v] in xs {{\n        if i == {j} {{\n            {jump}\n        }}\n"
                       f"        seen += 1\n        print(i)\n        print(v)\n    }}\n    print(\"after\")\n    return seen\n}}\nprint(walk({xs}))\n")
                if jump == "break":
                    out = "".join(f"{i}\n{xs[i]}\n" for i in range(j)) + f"after\n{j}\n"
                elif jump == "continue":
                    out = "".join(f"{i}\n{xs[i]}\n" for i in range(n) if i != j) + f"after\n{n - 1}\n"
                else:
                    out = "".join(f"{i}\n{xs[i]}\n" for i in range(j)) + f"{1000 + xs[j]}\n"
                ps.append((("list-jump", n, j, jump.split()[0]), src, out, "0"))
    return ps


# ---------------------------------------------------------------------------------------------------------------- long runs
NESTS = {"direct": "@J", "if": "if @C {\n@J\n}", "block": "{\n@J\n}", "block-if": "{\nif @C {\n@J\n}\n}", "if-block": "if @C {\n{\n@J\n}\n}",
         "else": "if @N {\nz += 1\n} else {\n@J\n}", "elif": "if @N {\nz += 1\n} else if @C {\n@J\n}", "if-if-block": "if @C {\nif @C {\n{\n@J\n}\n}\n}"}


def long_run_programs(n):
    """`n` passes that each leave their blocks by a jump behave like the first one, and what comes after - a call, a recursive
    call, another loop - is not affected: the jump does nothing but reach its target"""
    tail = ("fn id(v) {\n    return v\n}\nfn sum(k) {\n    if k == 0 {\n        return 0\n    }\n    return k + sum(k - 1)\n}\n"
            "print(id(42))\nprint(sum(40))\nfor [_, v] in [1, 2] {\n    if v == 1 {\n        continue\n    }\n    print(id(v))\n}\nprint(\"end\")\n")
    tail_out = "42\n820\n2\nend\n"
    ps = []
    for nest_name, nest in NESTS.items():
        for loop in ("while", "for"):
            head = f"i := 0\nwhile i < {n} {{\n    i += 1\n" if loop == "while" else f"for [_, i] in 1 .. {n + 1} {{\n"
            # continue on all passes but every 7th
            body = nest.replace("@C", "i % 7 != 0").replace("@N", "i % 7 == 0").replace("@J", "continue")
            src = "z := 0\ncount := 0\n" + head + "tmp := i\n" + body + "\ncount += tmp\n}\nprint(count)\n" + tail
            if nest_name in ("direct", "block"):
                exp = 0
            else:
                exp = sum(i for i in range(1, n + 1) if i % 7 == 0)
            ps.append((("long", "continue", nest_name, loop, n), src, f"{exp}\n" + tail_out, "0"))
            # an inner loop left by break on every pass of the outer one
            body = nest.replace("@C", "j == 2").replace("@N", "j != 2").replace("@J", "break")
            src = ("z := 0\ncount := 0\n" + head + "j := 0\nwhile true {\nj += 1\ntmp := j\n" + body + "\ncount += 1\n}\ncount += j\n}\nprint(count)\n" + tail)
            exp = n * (1 if nest_name in ("direct", "block") else 3)
            ps.append((("long", "break", nest_name, loop, n), src, f"{exp}\n" + tail_out, "0"))
            # a call left by return on every pass
            body = nest.replace("@C", "k % 7 != 0").replace("@N", "k % 7 == 0").replace("@J", "return k + 1")
            src = ("z := 0\nfn g(k) {\ntmp := k\n" + body + "\nreturn 0\n}\ncount := 0\n" + head + "count += g(i)\n}\nprint(count)\n" + tail)
            if nest_name in ("direct", "block"):
                exp = sum(i + 1 for i in range(1, n + 1))
            else:
                exp = sum(i + 1 for i in range(1, n + 1) if i % 7 != 0)
            ps.append((("long", "return", nest_name, loop, n), src, f"{exp}\n" + tail_out, "0"))
    return ps


def judge(ctx, label, cases, model_ok, what, sig, fuel=3000000, reconfirm=True):
    """leg B on the whole stream, leg C = the planted prediction; the shortest failing inputs (one per class `sig(key)`, at most
    four) are confirmed through the command line and reported"""
    if not cases:
        return
    impl, dis = tie.run(ctx, [c[1] for c in cases], label, model_ok, project=tie.proj_out_status, fuel=fuel, reconfirm=reconfirm)
    bad = []
    for (key, src, exp_out, exp_st), r in zip(cases, impl):
        ctx.nontrivial((exp_out, exp_st))
        ctx.dist("predicted:" + exp_st)
        ctx.dist(label + ":" + str(sig(key)))
        if not oracle_one(ctx, src, r, (exp_out, exp_st))[0]:
            bad.append((key, src, exp_out, exp_st))
    bad.sort(key=lambda b_: len(b_[1]))
    reported = set()
    for key, src, exp_out, exp_st in bad:
        if sig(key) in reported or len(reported) >= 4:
            continue
        c = core.run_cli(src)
        ctx.cov["cli_reconfirmed"] += 1
        ok, why = oracle_one(ctx, src, c, (exp_out, exp_st))
        if ok:
            continue
        reported.add(sig(key))
        ctx.violation(what(key) + ": " + why[:600], src, {"plan": str(key), "predicted_stdout": exp_out[:2000], "predicted_status": exp_st,
                                                          "cli": {k: v[:2000] for k, v in c.items()}, "failing_cases_in_stream": len(bad)})
    explained = {b_[1] for b_ in bad}
    tie.report_disagreements(ctx, [d for d in dis if d[0] not in explained], label)
    k = len(cases) * 2 // 3
    ctx.sample({"plan": str(cases[k][0]), "src": cases[k][1][:400], "predicted": cases[k][2][:200], "impl": impl[k]["stdout"][:200]})


def oracle_one(ctx, src, r, expected=None):
    if expected is None:
        return True, ""
    exp_out, exp_status = expected
    if r["stdout"] != exp_out or r["status"] != exp_status:
        return False, f"predicted stdout/status {exp_out!r}/{exp_status}, got {r['stdout']!r}/{r['status']}"
    return True, ""


def run(ctx, model_ok):
    maxd = 4 if ctx.tier == "thorough" else 3
    cases = []
    for d in range(1, maxd + 1):
        for chain in itertools.product(KINDS, repeat=d):
            for j in JUMPS:
                if j == "none" and d > 2:
                    continue
                cases.append(((chain, j),) + program(chain, j))
    extra = [(("if", i), s, o, st) for i, (s, o, st) in enumerate(if_chain_programs())]
    extra += [(("mut", i), s, o, st) for i, (s, o, st) in enumerate(mutation_programs())]
    extra += [(("empty", i), s, o, st) for i, (s, o, st) in enumerate(empty_branch_programs())]
    extra += [(("kept", i), s, o, st) for i, (s, o, st) in enumerate(kept_pair_programs())]
    extra += [(("continue-scope", i), s, o, st) for i, (s, o, st) in enumerate(continue_scope_programs())]
    extra += [(("top", i), s, o, st) for i, (s, o, st) in enumerate(toplevel_jump_programs())]
    ctx.cov["exhaustive"] = True
    for label, cs in (("jump_nest", cases), ("fixed", extra)):
        srcs = [c[1] for c in cs]
        impl, dis = tie.run(ctx, srcs, label, model_ok, project=tie.proj_out_status)
        bad = []
        for (key, src, exp_out, exp_st), r in zip(cs, impl):
            ctx.nontrivial((exp_out, exp_st))          # distinct predicted behaviours (many plans share one)
            ctx.dist("predicted:" + exp_st)
            ok, why = oracle_one(ctx, src, r, (exp_out, exp_st))
            if not ok:
                bad.append((key, src, why, exp_out, exp_st))
        bad.sort(key=lambda b: len(b[1]))
        reported = set()
        for key, src, why, exp_out, exp_st in bad:
            sig = (key[-1] if isinstance(key[0], tuple) else key[0], key[0][-1] if isinstance(key[0], tuple) else "")
            if sig in reported:
                continue
            c = core.run_cli(src)
            ctx.cov["cli_reconfirmed"] += 1
            if oracle_one(ctx, src, c, (exp_out, exp_st))[0]:
                continue
            reported.add(sig)
            ctx.violation("control flow did not reach its target: " + why, src,
                          {"plan": str(key), "predicted_stdout": exp_out, "predicted_status": exp_st, "cli": c,
                           "failing_cases_in_stream": len(bad)})
            if len(reported) >= 5:
                break
        explained = {b[1] for b in bad}
        tie.report_disagreements(ctx, [d for d in dis if d[0] not in explained], label)
        if cs:
            k = len(cs) * 2 // 3
            ctx.sample({"plan": str(cs[k][0]), "src": cs[k][1][:400], "predicted": cs[k][2][:200], "impl": impl[k]["stdout"][:200]})
    # exit shapes and random plans share one stream (one differential run); failing inputs are reported per loop head / per kind
    judge(ctx, "plans", exit_shape_cases(ctx) + random_plan_cases(ctx), model_ok,
          lambda key: "a loop left by a jump: control did not go on where the statement says" if key[0] == "exit"
          else "control flow did not reach its target", lambda key: key[:2] if key[0] == "exit" else key[0])
    judge(ctx, "iteration", string_byte_programs() + object_order_programs(), model_ok,
          lambda key: "`for` did not walk the string bytes / object keys / list indexes in order", lambda key: key[0])
    # quick: every jump x nest, the loop kinds alternating; thorough: all of them, and a few seven times as long.  (The hook-vs-CLI
    # sampling of tie.run is left to the other streams: a failing case is confirmed through the command line in any case.)
    longs = long_run_programs(3000)
    if ctx.tier == "thorough":
        longs += long_run_programs(20000)[::5]
    else:
        longs = [c for n, c in enumerate(longs) if (n // 3 + n // 6) % 2 == 0]
    judge(ctx, "long_run", longs, model_ok,
          lambda key: "after many passes left by a jump, control flow no longer behaves as on the first pass", lambda key: key[:2],
          fuel=400000, reconfirm=False)
