"""C12 — objects behave as string-keyed maps with deterministic key order."""
import itertools

import lib_objects as L
import tie

RULE = ("self-describing scripts judged against a Python dict printed in UTF-8-byte key order. Stream `long-keys`: keys of 20..100 "
        "bytes with a 2/3/4-byte character at every offset, present (stored, read, updated, iterated, destructured) and missing (read, "
        "op-assign, destructuring, nested, inside a function: a reported error, never a crash). Stream `perms`: every subset "
        "(size <= 3 quick / <= 5 thorough, plus a sample of size 4 resp. 6) of the keys a, A, b, '', 'a b', 'é', '_', '0' inserted in "
        "every order (exhaustive), by `.k`/`[\"k\"]` assignment, by literal or by repeated spread, then print / for / == "
        "against the same pairs written in another order. Stream `hist`: random histories of <= 5 / <= 7 operations out of "
        "{insert, overwrite, op-assign, read, copy, nested write, spread (4 forms), spread-only copy, duplicate-key literal, shorthand, computed "
        "name, traced literal (evaluation order), iterate (3 forms), print, == (equal / unequal variant)} with `.k` and "
        "`[\"k\"]` chosen at random wherever k is an identifier, plus the predicted errors {read missing, op-assign missing, "
        "non-string name, spread of a non-object}; keys on the read and write path are also written as computed expressions (variable, concatenation, call, interpolated literal); a spread-only literal `{o..}` is mutated and compared with `o` by `===` and by content; `for kv in o` pairs are kept in an outer list and printed after the loop. Stream `for-kept`: the same for lists and strings. non-trivial = distinct (operation-kind sequence, outcome class)")
ASSUMPTIONS = ["the key `_` is exercised as a property name in literals, reads and writes, but never as the key of a "
               "destructuring pair (that is C13's stream)",
               "values stored in the objects are null, booleans, small integers, short strings, flat lists and one-level objects"]

KEYS = ["a", "A", "b", "", "a b", "é", "_", "0"]


def oracle_one(ctx, src, r):
    return L.judge(src, r)


# ---------------------------------------------------------------------------- helpers
def access(rng, obj, k, force=None):
    """`obj.k` or `obj["k"]` (chosen at random when k is an identifier)"""
    dot = L.is_ident(k) and (rng.random() < 0.5 if force is None else force == "dot")
    return (f"{obj}.{k}", "dot") if dot else (f"{obj}[{L.str_lit(k)}]", "idx")


def rand_val(rng, depth=0):
    c = rng.randrange(10 if depth == 0 else 6)
    if c < 3:
        return rng.randrange(-3, 10)
    if c == 3:
        return rng.choice(["s", "t", "", "é"])
    if c == 4:
        return None
    if c == 5:
        return rng.choice([True, False])
    if c in (6, 7):
        return [rng.randrange(5) for _ in range(rng.randrange(0, 3))]
    return {k: rng.randrange(5) for k in rng.sample(["x", "y", "a"], rng.randrange(0, 3))}


def observe(sc, rng, o, name="o", how=None):
    how = how if how is not None else rng.randrange(4)
    if how == 3:
        # the pair handed to the body is a value of its own: kept pairs stay what they were when they were visited
        n = getattr(sc, "nacc", 0) + 1
        sc.nacc = n
        sc.stmt(f"acc{n} := []")
        sc.stmt(f"for kv in {name} {{ acc{n} += [kv]; }}")
        sc.stmt(f"print(acc{n})")
        sc.expect([[k, o[k]] for k in sorted(o, key=L.key_order)])
        sc.tags.append("for-kept")
        return
    if how == 0:
        sc.stmt(f"print({name})")
        sc.expect(o)
        sc.tags.append("print")
    elif how == 1:
        sc.stmt(f"for kv in {name} {{ print(kv); }}")
        for k in sorted(o, key=L.key_order):
            sc.expect([k, o[k]])
        sc.tags.append("for")
    else:
        sc.stmt(f"for [k, v] in {name} {{ print(k); print(v); }}")
        for k in sorted(o, key=L.key_order):
            sc.expect(k)
            sc.expect(o[k])
        sc.tags.append("for2")


# ---------------------------------------------------------------------------- stream: all insertion orders
def perm_scripts(rng, sizes, sampled_size, sample_n):
    out = []
    groups = []
    combos = []
    for m in sizes:
        combos += list(itertools.combinations(KEYS, m))
    if sampled_size:
        big = list(itertools.combinations(KEYS, sampled_size))
        combos += rng.sample(big, min(sample_n, len(big)))
    for subset in combos:
        vals = {k: rand_val(rng) for k in subset}
        group = []
        build = rng.randrange(3)
        for pi in itertools.permutations(subset):
            sc = L.Script()
            if build == 0:
                sc.stmt("o := {}")
                for k in pi:
                    sc.stmt(f"{access(rng, 'o', k)[0]} = {L.lit(vals[k])}")
            elif build == 1:
                sc.stmt("o := " + L.lit({k: vals[k] for k in pi}))
            else:
                sc.stmt("o := {}")
                for k in pi:
                    sc.stmt(f"o = {{o.., {L.str_lit(k)}: {L.lit(vals[k])}}}")
            o = dict(vals)
            observe(sc, rng, o, how=0)
            observe(sc, rng, o, how=1)
            observe(sc, rng, o, how=3)
            other = list(reversed(pi))
            sc.stmt("p := " + L.lit({k: vals[k] for k in other}))
            sc.stmt("print(o == p)")
            sc.expect(True)
            sc.stmt("print(p == o)")
            sc.expect(True)
            sc.tags = ["perm", ("assign", "literal", "spread")[build], len(subset)]
            src = sc.source()
            group.append(src)
            out.append(src)
        groups.append(group)
    return out, groups


# ---------------------------------------------------------------------------- stream: histories
class Hist:
    def __init__(self, rng, nops):
        self.rng = rng
        self.sc = L.Script()
        self.o = {}
        self.declared = set()
        self.tracer = False
        self.idfn = False
        self.nops = nops
        self.tmp = 0

    def key(self, present=None):
        rng = self.rng
        if present is True:
            return rng.choice(sorted(self.o)) if self.o else None
        if present is False:
            free = [k for k in KEYS if k not in self.o]
            return rng.choice(free) if free else None
        return rng.choice(KEYS)

    def acc(self, k, obj="o"):
        """an access expression for key k: `.k`, `["k"]`, or `[e]` with e a computed key expression (variable,
        concatenation, call, interpolated literal), which must mean the same property on the read and the write path"""
        rng, sc = self.rng, self.sc
        if rng.random() >= 0.3:
            return access(rng, obj, k)
        kind = rng.randrange(4)
        self.tmp += 1
        if kind == 0:
            sc.stmt(f"kv{self.tmp} := {L.str_lit(k)}")
            return f"{obj}[kv{self.tmp}]", "cvar"
        if kind == 1:
            i = rng.randrange(len(k) + 1)
            return f"{obj}[{L.str_lit(k[:i])} + {L.str_lit(k[i:])}]", "cconcat"
        if kind == 2:
            if not self.idfn:
                sc.stmt("fn idk(x) { return x; }")
                self.idfn = True
            return f"{obj}[idk({L.str_lit(k)})]", "ccall"
        # interpolated literal: an ASCII prefix written out, the rest through a slot
        i = 0
        while i < len(k) and ord(k[i]) < 128 and rng.random() < 0.6:
            i += 1
        sc.stmt(f"ks{self.tmp} := {L.str_lit(k[i:])}")
        return f"{obj}[${L.str_lit(k[:i])[:-1]}${{ks{self.tmp}}}\"]", "cinterp"

    def need_tracer(self):
        if not self.tracer:
            self.sc.stmt("fn t(x) { print(x); return x; }")
            self.tracer = True

    def init(self):
        rng = self.rng
        ks = rng.sample(KEYS, rng.randrange(0, 4))
        self.o = {k: rand_val(rng) for k in ks}
        self.sc.stmt("o := " + L.lit(self.o))
        self.sc.tags.append("init%d" % len(ks))

    def step(self):
        rng, sc, o = self.rng, self.sc, self.o
        c = rng.randrange(100)
        if c < 16:                                   # insert / overwrite
            k = self.key()
            v = rand_val(rng)
            a, form = self.acc(k)
            sc.stmt(f"{a} = {L.lit(v)}")
            sc.tags.append(("overwrite-" if k in o else "insert-") + form)
            o[k] = v
        elif c < 20:                                 # assignment through a computed name
            k = self.key()
            v = rand_val(rng)
            self.tmp += 1
            sc.stmt(f"k{self.tmp} := {L.str_lit(k)}")
            sc.stmt(f"o[k{self.tmp}] = {L.lit(v)}")
            sc.tags.append("assign-computed")
            o[k] = v
        elif c < 32:                                 # op-assign
            k = self.key(present=rng.random() < 0.8)
            if k is None:
                return
            a, form = self.acc(k)
            if k not in o:
                sc.fail(f"{a} += 1", f"op-assign on missing key {k!r}")
                sc.tags.append("opassign-missing-" + form)
                return
            cur = o[k]
            if isinstance(cur, bool) or cur is None or isinstance(cur, dict):
                return
            if isinstance(cur, int):
                op, n = rng.choice([("+=", 2), ("-=", 3), ("*=", 2), ("/=", 2), ("%=", 3)])
                sc.stmt(f"{a} {op} {n}")
                if op == "+=":
                    o[k] = cur + n
                elif op == "-=":
                    o[k] = cur - n
                elif op == "*=":
                    o[k] = cur * n
                elif op == "/=":
                    o[k] = abs(cur) // n * (1 if cur >= 0 else -1)
                else:
                    o[k] = abs(cur) % n * (1 if cur >= 0 else -1)
            elif isinstance(cur, str):
                sc.stmt(f"{a} += \"z\"")
                o[k] = cur + "z"
            else:
                sc.stmt(f"{a} += [7]")
                o[k] = cur + [7]
            sc.tags.append("opassign-" + form)
        elif c < 44:                                 # read
            k = self.key(present=rng.random() < 0.8)
            if k is None:
                return
            a, form = self.acc(k)
            if k not in o:
                sc.fail(f"print({a})", f"read of missing key {k!r}")
                sc.tags.append("read-missing-" + form)
                return
            sc.stmt(f"print({a})")
            sc.expect(o[k])
            sc.tags.append("read-" + form)
        elif c < 48:                                 # copy a property (shares a container)
            k = self.key(present=True)
            k2 = self.key()
            if k is None:
                return
            a1, f1 = self.acc(k)
            a2, f2 = self.acc(k2)
            sc.stmt(f"{a2} = {a1}")
            o[k2] = o[k]
            sc.tags.append("copy")
        elif c < 53:                                 # write inside a stored container
            cands = [k for k in o if (isinstance(o[k], list) and o[k]) or isinstance(o[k], dict)]
            if not cands:
                return
            k = rng.choice(sorted(cands))
            a, form = self.acc(k)
            if isinstance(o[k], list):
                sc.stmt(f"{a}[0] = 8")
                o[k][0] = 8
            else:
                k2 = rng.choice(["x", "y", "q"])
                a2, _ = access(rng, a, k2)
                sc.stmt(f"{a2} = 8")
                o[k][k2] = 8
            sc.tags.append("nested-write")
        elif c < 63:                                 # spread forms
            k = self.key()
            v = rand_val(rng)
            form = rng.randrange(4)
            if form == 0:
                sc.stmt(f"o = {{o.., {L.str_lit(k)}: {L.lit(v)}}}")
                o = dict(o)
                o[k] = v
            elif form == 1:
                sc.stmt(f"o = {{{L.str_lit(k)}: {L.lit(v)}, o..}}")
                n = {k: v}
                n.update(o)
                o = n
            else:
                pk = rng.sample(KEYS, rng.randrange(0, 3))
                p = {x: rand_val(rng) for x in pk}
                self.tmp += 1
                sc.stmt(f"p{self.tmp} := {L.lit(p)}")
                if form == 2:
                    sc.stmt(f"o = {{o.., p{self.tmp}..}}")
                    o = dict(o)
                    o.update(p)
                else:
                    sc.stmt(f"o = {{p{self.tmp}.., o..}}")
                    n = dict(p)
                    n.update(o)
                    o = n
            self.o = o
            sc.tags.append("spread%d" % form)
        elif c < 67:                                 # duplicate key in a literal: the later entry wins
            k = self.key()
            v1, v2 = rand_val(rng), rand_val(rng)
            k2 = self.key()
            sc.stmt(f"o = {{{L.str_lit(k)}: {L.lit(v1)}, {L.str_lit(k2)}: 0, {L.str_lit(k)}: {L.lit(v2)}, o..}}")
            n = {k: v1}
            n[k2] = 0
            n[k] = v2
            n.update(o)
            self.o = n
            sc.tags.append("dup-key-literal")
        elif c < 72:                                 # shorthand {a} = {"a": a}
            k = rng.choice(["a", "A", "b"])
            v = rand_val(rng)
            sc.stmt(f"{k} {'=' if k in self.declared else ':='} {L.lit(v)}")
            self.declared.add(k)
            if rng.random() < 0.5:
                sc.stmt(f"o = {{o.., {k}}}")
            else:
                sc.stmt(f"o = {{{k}, o..}}")
                if k in o:
                    v = o[k]
            o = dict(o)
            o[k] = v
            self.o = o
            sc.tags.append("shorthand")
        elif c < 76:                                 # entries are evaluated in source order, name before value
            self.need_tracer()
            ks = [self.key() for _ in range(rng.randrange(1, 4))]
            vs = [rng.randrange(10) for _ in ks]
            sc.stmt("o = {" + ", ".join(f"t({L.str_lit(k)}): t({v})" for k, v in zip(ks, vs)) + ", o..}")
            n = {}
            for k, v in zip(ks, vs):
                sc.expect(k)
                sc.expect(v)
                n[k] = v
            n.update(o)
            self.o = n
            sc.tags.append("traced-literal")
        elif c < 79:                                 # computed names must be strings
            self.need_tracer()
            bad = rng.choice(["1", "null", "[\"a\"]", "true", "{}", "t(2)"])
            k = self.key()
            sc.fail(f"o = {{t({L.str_lit(k)}): t(1), {bad}: 3}}", f"property name {bad} is not a string")
            sc.expect(k)
            sc.expect(1)
            if bad == "t(2)":
                sc.expect(2)
            sc.tags.append("non-string-name")
            return
        elif c < 81:                                 # spread of a non-object
            bad = rng.choice(["1", "[1]", "\"a\"", "null"])
            self.tmp += 1
            sc.stmt(f"q{self.tmp} := {bad}")
            sc.fail(f"o = {{o.., q{self.tmp}..}}", f"spread of the non-object {bad} in an object literal")
            sc.tags.append("spread-non-object")
            return
        elif c < 85:                                 # a literal that is exactly one spread is a *new* object
            self.tmp += 1
            cn = f"c{self.tmp}"
            sc.stmt(f"{cn} := {{o..}}")
            copy = dict(o)
            r = rng.randrange(3)
            k = self.key()
            a, form = access(rng, cn, k)
            if r == 0 or k not in copy or not isinstance(copy[k], int) or isinstance(copy[k], bool):
                sc.stmt(f"{a} = 77")
                copy[k] = 77
            else:
                sc.stmt(f"{a} += 5")
                copy[k] = copy[k] + 5
            sc.stmt(f"print({cn} === o)")
            sc.expect(False)
            sc.stmt("print(o)")
            sc.expect(o)
            sc.stmt(f"print({cn})")
            sc.expect(copy)
            if rng.random() < 0.5:                   # go on with the copy
                sc.stmt(f"o = {cn}")
                self.o = copy
            sc.tags.append("spread-only-copy")
        elif c < 91:                                 # observe
            observe(sc, rng, o)
        else:                                        # ==
            ks = list(o)
            rng.shuffle(ks)
            same = {k: o[k] for k in ks}
            r = rng.randrange(3)
            if r == 0 or not ks:
                sc.stmt(f"print(o == {L.lit(same, key_perm=lambda l: rng.sample(l, len(l)))})")
                sc.expect(True)
                sc.tags.append("eq-true")
            elif r == 1:
                del same[ks[0]]
                sc.stmt(f"print(o == {L.lit(same)})")
                sc.expect(False)
                sc.tags.append("eq-false-missing")
            else:
                ints = [k for k in ks if isinstance(o[k], int) and not isinstance(o[k], bool)]
                if ints:
                    same[ints[0]] = o[ints[0]] + 1
                    sc.stmt(f"print({L.lit(same)} == o)")
                    sc.expect(False)
                    sc.tags.append("eq-false-value")
                else:
                    free = [k for k in KEYS if k not in o]
                    if not free:
                        return
                    del same[ks[0]]
                    same[free[0]] = 1
                    sc.stmt(f"print(o == {L.lit(same)})")
                    sc.expect(False)
                    sc.tags.append("eq-false-key")

    def build(self):
        self.init()
        for _ in range(self.nops):
            if self.sc.failed:
                break
            self.step()
        if not self.sc.failed:
            observe(self.sc, self.rng, self.o, how=0)
        return self.sc


def hist_scripts(rng, n, maxops):
    out = []
    for _ in range(n):
        h = Hist(rng, rng.randrange(1, maxops + 1))
        sc = h.build()
        out.append(sc.source({"tags": sc.tags}))
    return out


def for_kept_scripts():
    """the [key, value] pair of every iteration is a list of its own (objects, lists, strings)"""
    out = []
    its = [({"b": 1, "a": [2], "": 3}, [["", 3], ["a", [2]], ["b", 1]]), ({}, []), ({"k": {"x": 1}}, [["k", {"x": 1}]]),
           ([7, 8, 9], [[0, 7], [1, 8], [2, 9]]), ([[1]], [[0, [1]]]), ("xyz", [[0, "x"], [1, "y"], [2, "z"]]), ("", [])]
    for it, pairs in its:
        for form in range(3):
            sc = L.Script()
            sc.stmt(f"it := {L.lit(it)}")
            sc.stmt("acc := []")
            if form == 0:
                sc.stmt("for kv in it { acc += [kv]; }")
            elif form == 1:
                sc.stmt("for kv in it { acc = [acc.., kv]; }")
            else:
                sc.stmt("hold := {\"last\": null, \"all\": []}")
                sc.stmt("for kv in it { hold.all += [kv]; hold.last = kv; acc += [hold.last]; }")
            sc.stmt("print(acc)")
            sc.expect(pairs)
            sc.stmt(f"print(acc == {L.lit(pairs)})")
            sc.expect(True)
            if len(pairs) >= 2:
                sc.stmt("print(acc[0] === acc[1])")
                sc.expect(False)
                sc.stmt("acc[0][1] = \"w\"")
                sc.stmt("print(acc[1])")
                sc.expect(pairs[1])
            sc.tags = ["for-kept", type(it).__name__, form]
            out.append(sc.source({"tags": sc.tags}))
    return out


def self_keyed_scripts():
    """the key, the value or the right-hand side of an update reads the very object being updated (directly, through an
    alias, through a call): `o[o.next] = v` is `k := o.next; o[k] = v`"""
    out = []
    base = {"next": "slot", "slot": 1, "n": 2}
    keyx = [("o.next", "slot"), ('o["next"]', "slot"), ("al.next", "slot"), ("pick(o)", "slot"), ('o.next + "2"', "slot2"),
            ('$"${o.next}"', "slot")]
    valx = [("5", 5), ("o.n", 2), ('o["slot"]', 1), ("al.n + 1", 3), ("count(o)", 3)]
    for kx, k in keyx:
        for vx, v in valx:
            for form in ("=", "+=", ".="):
                if form == "+=" and k not in base:
                    continue
                sc = L.Script()
                sc.stmt(f"o := {L.lit(base)}")
                sc.stmt("al := o")
                sc.stmt("fn pick(x) { return x.next; }")
                sc.stmt("fn count(x) { n := 0; for [k, v] in x { n += 1; }; return n; }")
                exp = dict(base)
                if form == "=":
                    sc.stmt(f"o[{kx}] = {vx}")
                    exp[k] = v
                elif form == "+=":
                    sc.stmt(f"o[{kx}] += {vx}")
                    exp[k] = exp[k] + v
                else:
                    sc.stmt(f"o.n = o[{kx if k in base else 'o.next'}] + {vx}")
                    exp["n"] = exp[k if k in base else "slot"] + v
                sc.stmt("print(o)")
                sc.expect(exp)
                sc.stmt("print(al === o)")
                sc.expect(True)
                sc.tags = ["self-keyed", kx, vx, form]
                out.append(sc.source({"tags": sc.tags}))
    return out


def byte_key_scripts():
    """keys are strings: a byte-wise piece of a multi-byte character is not text and is rejected as a key on every path (it
    never names, or collides with, any property), while a piece that is text names the property spelt that way"""
    out = []
    uses = ["o[p] = 1", "print(o[p])", "o[p] += 1", "print({p: 1})", "{p: x} := o", 'print({"a": 1, p: 2})', "o[p] = 1; o[p2] = 2",
            "print({p: 1, p2: 2})"]
    for s, i, j, i2, j2 in [("é", 0, 1, 1, 2), ("aé", 1, 2, 2, 3), ("€", 0, 2, 2, 3), ("€", 0, 1, 1, 2), ("😀x", 0, 3, 3, 4), ("😀x", 1, 4, 0, 1)]:
        for u in uses:
            sc = L.Script()
            sc.stmt(f'o := {{"a": 1, "\ufffd": 2}}')
            sc.stmt(f'p := "{s}"[{i}:{j}]')
            sc.stmt(f'p2 := "{s}"[{i2}:{j2}]')
            sc.stmt("print(p == p2)")
            sc.expect(False)
            sc.fail(u, "a key that is not valid text")
            sc.tags = ["byte-key", s, u]
            out.append(sc.source({"tags": sc.tags}))
    for s, i, j, key in [("aé", 0, 1, "a"), ("éa", 2, 3, "a"), ("éa", 0, 2, "é"), ("x€", 1, 4, "€")]:
        sc = L.Script()
        sc.stmt('o := {"a": 1, "é": 2, "€": 3}')
        sc.stmt(f'p := "{s}"[{i}:{j}]')
        sc.stmt("o[p] += 10")
        sc.stmt("print(o)")
        exp = {"a": 1, "é": 2, "€": 3}
        exp[key] += 10
        sc.expect(exp)
        sc.stmt("print({p: 0})")
        sc.expect({key: 0})
        sc.tags = ["byte-key-text", s]
        out.append(sc.source({"tags": sc.tags}))
    return out


def long_key_scripts(thorough):
    """keys are arbitrary text: long keys (20..100 bytes) with a 2-, 3- or 4-byte character at every offset behave like any
    other key on every path — stored, read back, updated, iterated in byte order; and a MISSING such key is a reported error
    (never a crash) on read, op-assignment and destructuring"""
    out = []
    for total in (20, 30, 41, 45, 60, 100):
        for ch in ("é", "€", "\U0001F600"):
            step = 1 if (thorough or total in (41, 45)) else 5
            for at in range(0, total - 1, step):
                key = "k" * at + ch + "k" * max(0, total - at - len(ch.encode()))
                lit = L.str_lit(key)
                sc = L.Script()
                sc.stmt('o := {"a": 1}')
                sc.stmt(f"o[{lit}] = 5")
                sc.stmt(f"print(o[{lit}])")
                sc.expect(5)
                sc.stmt(f"o[{lit}] += 2")
                sc.stmt(f"print(o[{lit}])")
                sc.expect(7)
                sc.stmt("for [k, v] in o {\n    print(k)\n}")
                sc.expect_text("a")
                sc.expect_text(key)
                sc.stmt(f"{{{lit}: got}} := o")
                sc.stmt("print(got)")
                sc.expect(7)
                sc.tags = ["long-key", "present", len(key.encode())]
                out.append(sc.source({"tags": sc.tags}))
                for name, use in (("read", f"print(o[{lit}])"), ("op-assign", f"o[{lit}] += 1"), ("destructure", f"{{{lit}: got}} := o"),
                                  ("read-nested", f"print(p.inner[{lit}])"), ("op-assign-in-function", f"bump({lit})")):
                    sc = L.Script()
                    sc.stmt('o := {"a": 1}')
                    sc.stmt('p := {"inner": o}')
                    sc.stmt("fn bump(k) {\n    o[k] += 1\n}")
                    sc.stmt('print("before")')
                    sc.expect_text("before")
                    sc.fail(use, "a missing key is a reported error")
                    sc.tags = ["long-key", "missing-" + name, len(key.encode())]
                    out.append(sc.source({"tags": sc.tags}))
    return out


def classify(src, r):
    p = L.prediction(src) or {}
    return (tuple(p.get("tags", []))[:8], L.err_class(r))


def run(ctx, model_ok):
    rng = ctx.rng
    thorough = ctx.tier == "thorough"
    L.run_stream(ctx, "corpus", L.corpus_scripts("C12"), model_ok, classify=classify)
    if thorough:
        perms, groups = perm_scripts(rng, [0, 1, 2, 3, 4, 5], 6, 14)
        nhist, maxops = 1200000, 7
    else:
        perms, groups = perm_scripts(rng, [0, 1, 2, 3], 4, 25)
        nhist, maxops = 30000, 5
    ctx.cov["exhaustive"] = True
    L.run_stream(ctx, "for-kept", for_kept_scripts(), model_ok, classify=classify)
    L.run_stream(ctx, "self-keyed", self_keyed_scripts(), model_ok, classify=classify)
    L.run_stream(ctx, "byte-keys", byte_key_scripts(), model_ok, classify=classify)
    L.run_stream(ctx, "long-keys", long_key_scripts(thorough), model_ok, classify=classify)
    impl = L.run_stream(ctx, "perms", perms, model_ok, classify=lambda s, r: ("perm", s.split("\n")[1][:40], r["status"]))
    # metamorphic leg: within a group (same pairs, all insertion orders) the output is one and the same text
    res = dict(zip(list(dict.fromkeys(perms)), impl))
    for g in groups:
        outs = {}
        for s in g:
            outs.setdefault(res[s]["stdout"] + "|" + res[s]["status"], s)
        ctx.dist("perm-group-size:%d" % len(g))
        if len(outs) > 1:
            a, b = list(outs.values())[:2]
            ctx.violation("two insertion orders of the same key/value pairs are distinguishable", a,
                          {"other_order": b, "cli": res[a], "cli_other": res[b]})
    done = 0
    while done < nhist:                       # in slices, to bound memory
        k = min(100000, nhist - done)
        hist = hist_scripts(rng, k, maxops)
        L.run_stream(ctx, "hist", hist, model_ok, classify=classify)
        for s in hist:
            for t in (L.prediction(s) or {}).get("tags", []):
                ctx.dist("op:" + str(t))
        done += k
