"""C03 — the front end accepts or cleanly rejects every input, before running anything."""
import re
import core
import gens
import tie

RULE = ("tok+ast correspondence and CLI oracle on: all strings of length <= 3 (quick) / <= 4 (thorough) over a 30-character "
        "alphabet (exhaustive), unterminated literals, truncations and token/byte mutations of the suite and documentation "
        "scripts, random Unicode, invalid UTF-8 byte strings; string literals assembled from pieces (text, escapes, hex escapes, "
        "slots with nested literals / braces / quotes / comments) with one lexical error (bad escape, bad hex digit, unescaped `$`, "
        "`$` + non-brace) planted after every well-formed piece and after random piece sequences, in the first, second and third "
        "literal of a file in 12 statement contexts (rejected with nothing printed whenever the implementation rejects the same error "
        "at the start of a file's first literal), their well-formed and error-inside-a-slot "
        "counterparts (run: no panic, no hang), every character after a backslash x payload shapes and code-point boundaries "
        "(escape syntaxes of other languages), all 256 `\\xHH`; non-trivial = distinct (accept/reject, error kind, token-kind "
        "sequence) class")
ASSUMPTIONS = ["LALRPOP's generated automaton is not modelled; the Lean recogniser is tied to it by the ast correspondence",
               "the `; expected ...` tail of parse messages is dictated by LALRPOP's tables and is not compared"]

DIAG = re.compile(r"\At\.sd:(\d+):(\d+): (.+)\n\Z", re.S)


def lines_of(src):
    if src == "":
        return 0
    return src.count("\n") + (0 if src.endswith("\n") else 1)


def klass(block):
    if block.startswith("ERR"):
        return " ".join(block.split(" ")[:3 if block.startswith("ERR Lex") else 2])
    return "ok:" + ",".join(sorted(set(re.findall(r"\((\w+) ", block))))[:200]


def oracle_one(ctx, src, r, astblock=None):
    """model-free: the CLI's behaviour on `src` given the implementation's own front-end verdict"""
    if astblock is None:
        astblock = core.batch("impl", "ast", [src])[0]
    if astblock.startswith("PANIC") or astblock.startswith("DIED") or astblock.startswith("TIMEOUT"):
        return False, "front end crashed or did not terminate: " + astblock.strip()[:200]
    if astblock.startswith("ERR"):
        if r["status"] == "timeout":
            return False, "a rejected input did not finish within the time limit"
        f = astblock.split()
        l, c = (f[3] if f[1] == "Lex" else f[2]).split(":")
        if r["status"] != "103":
            return False, f"rejected input but exit status {r['status']}"
        if r["stdout"] != "":
            return False, "rejected input but something was printed"
        m = DIAG.match(r["stderr"])
        if not m:
            return False, "stderr is not one `<path>:<line>:<col>: <message>` diagnostic: " + repr(r["stderr"][:200])
        if (m.group(1), m.group(2)) != (l, c):
            return False, f"CLI reports {m.group(1)}:{m.group(2)}, front end reported {l}:{c}"
        if int(l) < 1 or int(l) > max(1, lines_of(src)) + 1:
            return False, f"reported line {l} outside 1..lines+1 ({lines_of(src)} lines)"
    return True, ""


# White_Space of Unicode (what Rust's `char::is_whitespace` accepts)
RUST_WS = set(map(chr, [9, 10, 11, 12, 13, 32, 0x85, 0xA0, 0x1680, 0x2028, 0x2029, 0x202F, 0x205F, 0x3000] + list(range(0x2000, 0x200B))))
_TOKLINE = re.compile(r"^T (\d+):(\d+) (\d+):(\d+) ")


def unlexed_text(src, tokblock):
    """model-free: the characters of an ACCEPTED file that lie in no token the implementation's own lexer reported, and are
    neither white space, a `;` nor part of a `#` comment.  "Parses the whole file": there must be none.  -> (offset, char) or None"""
    starts = [None, 0]
    for i, ch in enumerate(src):
        if ch == "\n":
            starts.append(i + 1)
    covered = bytearray(len(src) + 2)
    for line in tokblock.split("\n"):
        m = _TOKLINE.match(line)
        if not m:
            continue
        l1, c1, l2, c2 = (int(x) for x in m.groups())
        if l1 >= len(starts) or l2 >= len(starts):
            return None                     # positions outside the file are judged by the line-bound oracle
        a, b = starts[l1] + c1 - 1, starts[l2] + c2 - 1
        for k in range(max(a, 0), min(b, len(src) - 1) + 1):
            covered[k] = 1
    in_comment = False
    for i, ch in enumerate(src):
        if ch == "\n":
            in_comment = False
            continue
        if covered[i]:
            continue            # a `#` inside a token (a string) starts no comment; tokens never begin inside a comment
        if in_comment:
            continue
        if ch == "#":
            in_comment = True
            continue
        if ch not in RUST_WS and ch != ";":      # a suppressed terminator (first / repeated `;`) is dropped from the stream
            return i, ch
    return None


# ---------------------------------------------------------------------------- string literals assembled from pieces
def ref_literal(text, i, interpolate):
    """independent reference scanner of one string literal (docs/features.md "Strings", "Escape sequences"): `i` is the
    offset just after the opening quote.  -> ("ok", offset after the closing quote) | ("eof",) | ("err", offset, kind)"""
    n = len(text)
    while i < n:
        c = text[i]
        if c == '"':
            return "ok", i + 1
        if c == "\\":
            if i + 1 >= n:
                return ("eof",)
            e = text[i + 1]
            if e in '\\"$nr':
                i += 2
                continue
            if e != "x":
                return "err", i + 1, "escape"
            for k in (2, 3):
                if i + k >= n:
                    return ("eof",)
                if text[i + k] not in "0123456789abcdefABCDEF":
                    return "err", i + k, "hex"
            i += 4
            continue
        if c == "$":
            if not interpolate:
                return "err", i, "dollar"
            if i + 1 >= n:
                return ("eof",)
            if text[i + 1] != "{":
                return "err", i + 1, "slot-start"
            depth = 0
            i += 1
            while i < n:                     # the slot is copied raw: only braces count
                if text[i] == "{":
                    depth += 1
                elif text[i] == "}":
                    depth -= 1
                i += 1
                if depth == 0:
                    break
            else:
                return ("eof",)
            continue
        i += 1
    return ("eof",)


GOOD_TEXT = ["a", " ", "é", "😀", "#", "{", "}", "{}", "'", "\\\\", '\\"', "\\$", "\\n", "\\r", "\\x41", "\\x00", "\\xff", "\\x7F",
             "\\xe9", "\\\\\\\\", "\\$\\\\", "x41"]
# slots: lexically complete whatever they hold (identifier, operators, object literal with braces, nested plain / interpolated
# literal, a bare quote, a comment, nothing, text that is a lexical error of the SLOT, not of the file)
GOOD_SLOT = ["${a}", "${ a }", "${a + b}", '${{"k": a}.k}', '${"s"}', '${$"${a}"}', "${f(a)}", "${a}${b}", "${a # c}", '${"}',
             "${}", '${"\\q"}', '${$"${a} $b"}', '${"\\xg1"}', '${"$"}', "${a $ b}", "${\\}", "${a\n}"]
BAD_BOTH = [("\\q", 1, "escape"), ("\\u", 1, "escape"), ("\\u{41}", 1, "escape"), ("\\0", 1, "escape"), ("\\t", 1, "escape"),
            ("\\'", 1, "escape"), ("\\ ", 1, "escape"), ("\\é", 1, "escape"), ("\\{", 1, "escape"), ("\\}", 1, "escape"),
            ("\\X41", 1, "escape"), ("\\\n", 1, "escape"), ("\\😀", 1, "escape"), ("\\N", 1, "escape"),
            ("\\xg0", 2, "hex"), ("\\x4g", 3, "hex"), ('\\x"', 2, "hex"), ('\\x4"', 3, "hex"), ("\\xé9", 2, "hex"), ("\\x 1", 2, "hex"),
            ("\\x+1", 2, "hex"), ("\\x4+", 3, "hex"), ("\\x-1", 2, "hex"), ("\\x\\x", 2, "hex"), ("\\x4\\", 3, "hex"), ("\\x$", 2, "hex"),
            ("\\x4$", 3, "hex"), ("\\x{41}", 2, "hex"), ("\\x4\n", 3, "hex"), ("\\x١٢", 2, "hex")]
BAD_PLAIN = [("$", 0, "dollar"), ("$a", 0, "dollar"), ("${a}", 0, "dollar"), ("$$", 0, "dollar"), ('$"', 0, "dollar"), ("$ ", 0, "dollar")]
BAD_INTERP = [("$a", 1, "slot-start"), ("$ ", 1, "slot-start"), ("$$", 1, "slot-start"), ('$"', 1, "slot-start"), ("$}", 1, "slot-start"),
              ("$(a)", 1, "slot-start"), ("$é", 1, "slot-start"), ("$\\", 1, "slot-start"), ("$\n", 1, "slot-start"), ("$[a]", 1, "slot-start"),
              ("$😀", 1, "slot-start"), ("$\\${a}", 1, "slot-start"), ("$ {a}", 1, "slot-start")]
LIT_TAILS = ["", " z", "\\n", "${b}", "}"]
LIT_HEADER = 'print("ran")\na := "A"\nb := "B"\nfn f(s) {\n    return s\n}\n'
# statement contexts of up to three literals (@1 @2 earlier literals, @L the literal under test)
LIT_CONTEXTS = [("first", "x := @L\n", 0), ("first-arg", "print(@L)\n", 0), ("first-no-newline", "x := @L", 0),
                ("second-line", "w := @1\nx := @L\nprint(\"after\")\n", 1), ("second-same-line", "w := @1; x := @L\n", 1),
                ("second-operand", "x := @1 + @L\n", 1), ("third-list", "x := [@1, @2, @L]\n", 2),
                ("third-object-value", "x := {\"k\": @1, \"m\": @2, \"n\": @L}\n", 2), ("second-object-key", "x := {@1: 1, @L: 2}\n", 1),
                ("third-uncalled-fn", "w := @1\nfn g() {\n    v := @2\n    return @L\n}\n", 2),
                ("second-after-comment", "w := @1 # \"open $ \\q\nx := @L\n", 1), ("third-index", "o := {\"A\": @1}\nprint(o[@2][@L])\n", 2)]


def build_literal(pieces, interpolate):
    return ('$"' if interpolate else '"') + "".join(pieces) + '"'


def literal_cases(rng, thorough):
    """-> [(src, expect, tag, base)] with expect 'reject' (one planted lexical error, everything else valid) or 'accept'; `base` is the
    file whose first literal begins with the same error (None when `src` is that file)"""
    good = {False: GOOD_TEXT, True: GOOD_TEXT + GOOD_SLOT}
    bad = {False: BAD_BOTH + BAD_PLAIN, True: BAD_BOTH + BAD_INTERP}
    out = []

    def earlier(k):
        interp = rng.random() < 0.6
        lit = build_literal([rng.choice(good[interp]) for _ in range(rng.randrange(0, 4))], interp)
        assert ref_literal(lit, 2 if interp else 1, interp) == ("ok", len(lit)), lit
        return lit

    def emit(prefix, badpiece, interp, ctxs):
        for cname, tmpl, nearlier in ctxs:
            tail = rng.choice(LIT_TAILS) if badpiece else ""
            if not interp and "$" in tail:
                tail = " z"
            body = "".join(prefix)
            if badpiece:
                lit = ('$"' if interp else '"') + body + badpiece[0] + tail + '"'
                # the plan is checked against the reference scanner: well-formed up to the planted piece, an error of the planted
                # kind exactly there
                v = ref_literal(lit, 2 if interp else 1, interp)
                want = ("err", (2 if interp else 1) + len(body) + badpiece[1], badpiece[2])
                assert v == want, (lit, v, want)
            else:
                lit = build_literal(prefix, interp)
                v = ref_literal(lit, 2 if interp else 1, interp)
                assert v == ("ok", len(lit)), (lit, v)
            e1, e2 = earlier(1), earlier(2)
            src = LIT_HEADER + tmpl.replace("@1", e1).replace("@2", e2).replace("@L", lit)
            base = None
            if badpiece and (prefix or nearlier or cname != "first"):
                # the same error with nothing before it, in the first literal of a file
                base = LIT_HEADER + "x := " + ('$"' if interp else '"') + badpiece[0] + tail + '"\n'
            out.append((src, "reject" if badpiece else "accept",
                        (cname, "interp" if interp else "plain", badpiece[2] if badpiece else "ok", len(prefix)), base))

    for interp in (False, True):
        # (a) the error after every single well-formed piece (and with nothing before it), one context each (rotating)
        # (quick: with nothing before it every error, after a piece two or three errors of each kind, rotating through all of them)
        k = 0
        kinds = sorted({bp[2] for bp in bad[interp]})
        bykind = {kd: [bp for bp in bad[interp] if bp[2] == kd] for kd in kinds}
        for gi, g in enumerate([None] + good[interp]):
            if thorough or g is None:
                todo = bad[interp]
            else:
                todo = [bykind[kd][(gi * 3 + j) % len(bykind[kd])] for kd in kinds for j in range(3 if kd.startswith(("slot", "dollar")) else 2)]
            for bp in todo:
                ctxs = [LIT_CONTEXTS[(k + j * 5) % len(LIT_CONTEXTS)] for j in range(4 if thorough else 1)]
                k += 1
                emit([] if g is None else [g], bp, interp, ctxs)
        # (b) after random sequences of 2..5 well-formed pieces (slots favoured in interpolated literals)
        for _ in range(4000 if thorough else 400):
            pool = good[interp]
            pre = [rng.choice(GOOD_SLOT) if interp and rng.random() < 0.5 else rng.choice(pool) for _ in range(rng.randrange(2, 6))]
            emit(pre, rng.choice(bad[interp]), interp, [rng.choice(LIT_CONTEXTS)])
        # (c) the well-formed counterparts: every single piece in every context, random sequences
        for g in good[interp]:
            emit([g], None, interp, LIT_CONTEXTS if thorough else [rng.choice(LIT_CONTEXTS)])
        for _ in range(1500 if thorough else 120):
            emit([rng.choice(good[interp]) for _ in range(rng.randrange(0, 6))], None, interp, [rng.choice(LIT_CONTEXTS)])
    return out


CODEPOINTS = [0x0, 0x1, 0x22, 0x24, 0x41, 0x7f, 0x80, 0xff, 0x100, 0x7ff, 0x800, 0xfff, 0xd7ff, 0xd800, 0xdbff, 0xdc00, 0xdfff, 0xe000,
              0xfffd, 0xfffe, 0xffff, 0x10000, 0x10ffff, 0x110000, 0x1fffff, 0xffffff, 0x1000000, 0x7fffffff, 0x80000000, 0xffffffff,
              0x100000000, 0xffffffffffffffff, 0x10000000000000000]


def escape_cases(thorough):
    """a backslash followed by every printable ASCII character (and a few others) x payload shapes, and the escape syntaxes of
    other languages (\\u{…}, \\uXXXX, \\UXXXXXXXX, \\x{…}, octal, \\N{…}) at the code-point boundaries: whatever the interpreter makes of
    them, each file is run or cleanly rejected"""
    letters = [chr(c) for c in range(0x20, 0x7f)] + ["\t", "\n", "\r", "\x00", "é", "😀", "\u2028"]
    shapes = ["", "{41}", "{d800}", "0041", "{}", "{", "41", "{0}", "{10ffff}", "{110000}", "{D800}", "{dfff}", "{zz}", "{41"]
    out = []
    for c in letters:
        for sh in (shapes if thorough or c in "uUxXNo0" else shapes[:3]):
            out.append("\\" + c + sh)
    for cp in CODEPOINTS:
        hx = "%x" % cp
        forms = ["\\u{%s}" % hx, "\\u{%s}" % hx.upper(), "\\u{%s}" % hx.zfill(6), "\\u{%s}" % hx.zfill(8), "\\x{%s}" % hx, "\\U{%s}" % hx,
                 "\\u%s" % hx.zfill(4), "\\U%s" % hx.zfill(8), "\\N{U+%s}" % hx.upper(), "\\%o" % cp, "\\o{%o}" % cp, "\\%d" % cp, "\\u{%s" % hx,
                 "\\u{ %s }" % hx, "\\u{+%s}" % hx, "\\u{-%s}" % hx, "\\u{0x%s}" % hx, "\\u{%s_}" % hx]
        out.extend(forms if thorough else forms[:11])
    out = list(dict.fromkeys(out))
    srcs = []
    for i, e in enumerate(out):
        ctx_i = i % 4
        if ctx_i == 0:
            srcs.append(f'print("ran")\nx := "{e}"\nprint("after")\n')
        elif ctx_i == 1:
            srcs.append(f'print("ran")\na := "A"\nx := $"${{a}}{e}"\n')
        elif ctx_i == 2:
            srcs.append(f'print("ran")\nx := "caf\\xe9 {e} z"\n')
        else:
            srcs.append(f'print("ran")\nx := ["ok", $"{e}"]')
    for v0 in range(0, 256, 32):        # every \xHH, both cases of the digits, alone and after a slot (these cannot fail)
        srcs.append('print("ran")\na := "A"\nx := [\n' + "".join(f'    "\\x{v:02x}\\x{v:02X}", $"${{a}}\\x{v:02X}",\n' for v in range(v0, v0 + 32)) + ']\nprint("after")\n')
    return srcs


def literal_streams(ctx, model_ok):
    thorough = ctx.tier == "thorough"
    cases = literal_cases(ctx.rng, thorough)
    seen = set()
    cases = [c for c in cases if not (c[0] in seen or seen.add(c[0]))]
    srcs = [c[0] for c in cases]
    label = "literal-pieces"
    tokb, _ = tie.front(ctx, "tok", srcs, label, model_ok)
    astb, _ = tie.front(ctx, "ast", srcs, label, model_ok)
    # command line: every file the front-end hook does not reject (the planted verdict is judged there), every well-formed one, and a
    # sample of the rejected ones
    need = [i for i, (c, ab) in enumerate(zip(cases, astb)) if c[1] == "accept" or not ab.startswith("ERR")]
    rest = [i for i, (c, ab) in enumerate(zip(cases, astb)) if not (c[1] == "accept" or not ab.startswith("ERR"))]
    need = sorted(need + ctx.rng.sample(rest, min(len(rest), 6000 if thorough else 500)))
    cres = dict(zip(need, core.cli_batch([srcs[i] for i in need], timeout=5)))
    ctx.count(label + ":cli", len(need))
    ctx.cov["cli_reconfirmed"] += len(need)
    res = [cres.get(i) for i in range(len(cases))]
    # metamorphic (model-free): what the implementation itself rejects as a lexical error at the very beginning of the first literal of
    # a file is a lexical error after well-formed pieces and in a later literal too (the verdict on the error is the
    # implementation's own, so an extension of the escape syntax is not judged here)
    bases = sorted({c[3] for c in cases if c[3] is not None})
    bverdict = dict(zip(bases, core.batch("impl", "ast", bases)))
    nbad = 0
    accepted = []
    order = sorted(range(len(cases)), key=lambda i: cases[i][1] != "reject")
    for i in order:
        (src, expect, tag, base), tb, ab, r = cases[i], tokb[i], astb[i], res[i]
        ctx.nontrivial(("literal",) + tag)
        ctx.dist("literal:" + expect + ":" + tag[2])
        if r is None:
            continue
        why = None
        if expect == "reject":
            if base is not None and not bverdict[base].startswith("ERR Lex"):
                ctx.exclude("literal_error_not_an_error_at_the_start_of_a_literal")
            elif base is not None and (r["status"] != "103" or r["stdout"] != "" or not DIAG.match(r["stderr"])):
                why = (f"a lexical error in a string literal ({tag[2]}; {' '.join(bverdict[base].split()[2:4])} when it opens the first literal of a "
                       f"file) after {tag[3]} well-formed piece(s), context {tag[0]}: the file must be rejected with one diagnostic, status 103 and "
                       f"nothing printed; got status {r['status']}, stdout {r['stdout'][:60]!r}, stderr {r['stderr'][:160]!r}")
        else:
            accepted.append(src)
            if r["status"] in ("101", "timeout") or r["status"].startswith("died") or "panicked" in r["stderr"]:
                why = (f"a file whose literals are lexically well-formed (context {tag[0]}) panics or hangs (status {r['status']}): "
                       f"{r['stderr'][:160]!r}")
            elif not ab.startswith("ERR") and "ERR" not in tb and not tb.startswith("TIMEOUT"):
                u = unlexed_text(src, tb)
                if u is not None:
                    why = f"the file is accepted, but the character {u[1]!r} at offset {u[0]} belongs to no token, white space or comment"
        if why is None:
            ok, why2 = oracle_one(ctx, src, r, ab)
            if not ok:
                why = why2
        if why is not None and nbad < 5:
            nbad += 1
            ctx.violation(why, src, {"cli": r, "front_end": ab[:300], "expected": expect, "error_first_in_a_file": base,
                                     "front_end_on_that": bverdict.get(base, "")[:200]})
    if cases:
        k = need[len(need) // 3]
        ctx.sample({"stream": label, "src": cases[k][0], "expected": cases[k][1], "cli": res[k]})
    # the well-formed ones are run on both sides (leg B): slots are scanned and parsed when evaluated
    _, dis = tie.run(ctx, accepted, label, model_ok, project=tie.proj_full)
    tie.report_disagreements(ctx, dis, label)

    # escape syntaxes
    esc = escape_cases(thorough)
    label = "escape-shapes"
    astb, _ = tie.front(ctx, "ast", esc, label, model_ok)
    tie.front(ctx, "tok", esc, label, model_ok)
    res = core.cli_batch(esc, timeout=5)
    ctx.count(label + ":cli", len(esc))
    ctx.cov["cli_reconfirmed"] += len(esc)
    nbad = 0
    for src, ab, r in zip(esc, astb, res):
        ctx.nontrivial(("escape", klass(ab), r["status"]))
        ctx.dist("escape:" + ("rejected" if ab.startswith("ERR") else "accepted"))
        ok, why = oracle_one(ctx, src, r, ab)
        if ok and (r["status"] in ("101", "timeout") or "panicked" in r["stderr"]):
            ok, why = False, f"a file made of declarations of string literals panics or hangs (status {r['status']}): {r['stderr'][:160]!r}"
        if ok and r["status"] == "103" and r["stdout"] != "" and ab.startswith("ERR"):
            ok, why = False, "rejected input but something was printed"
        if not ok and nbad < 5:
            nbad += 1
            ctx.violation(why, src, {"cli": r, "front_end": ab[:300]})
    ctx.sample({"stream": label, "src": esc[len(esc) // 2], "cli": res[len(esc) // 2]})


def run(ctx, model_ok):
    rng = ctx.rng
    seeds = gens.seed_programs()
    if ctx.tier == "thorough":
        shorts = gens.short_strings(4)
        trunc = gens.truncations(seeds)
        muts = gens.mutations(seeds, rng, per=250)
        uni = gens.random_unicode(rng, 20000)
    else:
        shorts = gens.short_strings(3)
        trunc = gens.truncations(seeds, rng, 4000)
        muts = gens.mutations(seeds, rng, per=10)
        uni = gens.random_unicode(rng, 1500)
    streams = [("short", shorts), ("unterminated", gens.unterminated()), ("truncations", trunc),
               ("mutations", muts), ("unicode", uni)]
    ctx.cov["exhaustive"] = True
    cli_budget = 60000 if ctx.tier == "thorough" else 4000
    # fail fast: a front end that hangs or crashes on a common shape makes every stream below crawl (each such case costs the
    # watchdog's limit, thousands of them the whole time box): a sample of every stream is probed first, and what it finds is reported
    # (command-line confirmed) instead of running the streams
    import random as _random
    prng = _random.Random(ctx.seed)
    probe = []
    for label, srcs in streams:
        probe += prng.sample(srcs, min(len(srcs), 150))
    pblocks = core.batch("impl", "ast", probe)
    ctx.count("probe:ast", len(probe))
    stuck = [(s, b) for s, b in zip(probe, pblocks) if b.startswith(("PANIC", "DIED", "TIMEOUT"))]
    confirmed = 0
    for s, b in sorted(stuck, key=lambda t: len(t[0]))[:4]:
        r = core.run_cli(s, timeout=5)
        ctx.cov["cli_reconfirmed"] += 1
        if r["status"] in ("timeout", "101") or r["status"].startswith("-"):
            confirmed += 1
            ctx.violation("the front end " + ("does not terminate" if r["status"] == "timeout" else "crashes") + " on this input (" +
                          b.strip()[:120] + f"; command line: status {r['status']})", s, {"cli": r, "front_end": b[:300],
                          "inputs_of_the_probe_with_the_same_fate": len(stuck), "probe_size": len(probe)})
    if confirmed >= 3:
        ctx.cov["exhaustive"] = False
        ctx.cov["stopped_after_probe"] = f"{len(stuck)} of {len(probe)} probed inputs hang or crash the front end; the streams were not run"
        return
    for label, srcs in streams:
        srcs = list(dict.fromkeys(srcs))
        tokb, _ = tie.front(ctx, "tok", srcs, label, model_ok)
        astb, _ = tie.front(ctx, "ast", srcs, label, model_ok)
        # model-free: an accepted file is lexed whole — every character belongs to a reported token, white space or a comment
        nun = 0
        for s, tb, ab in zip(srcs, tokb, astb):
            if ab.startswith("ERR") or ab.startswith("TIMEOUT") or tb.startswith("TIMEOUT") or "ERR" in tb:
                continue
            u = unlexed_text(s, tb)
            ctx.cov["accepted_files_checked_for_unlexed_text"] = ctx.cov.get("accepted_files_checked_for_unlexed_text", 0) + 1
            if u is not None and nun < 3:
                r = core.run_cli(s)
                if r["status"] == "0" or not re.match(r"^t\.sd:\d+:\d+: (unexpected|'|interpolation)", r["stderr"]):
                    nun += 1
                    ctx.violation(f"the file is accepted, but the character {u[1]!r} at offset {u[0]} belongs to no token, white space or "
                                  f"comment: the front end did not read the whole file", s, {"cli": r, "tokens": tb[-600:]})
        # metamorphic (model-free): a lexical error that src + "\n" reports strictly inside src cannot disappear when the
        # trailing newline is removed — the front end must reject src too, no later than there
        if label in ("short", "unicode", "mutations"):
            bare = [s for s in srcs if s and not s.endswith("\n")]
            with_nl = core.batch("impl", "ast", [s + "\n" for s in bare])
            verdict = dict(zip(srcs, astb))
            for s, bn in zip(bare, with_nl):
                if bn.startswith("ERR Lex"):
                    f = bn.split()
                    l, c = (int(x) for x in f[3].split(":"))
                    pre_lines = s.split("\n")
                    inside = l < len(pre_lines) or (l == len(pre_lines) and c <= len(pre_lines[-1]))
                    v = verdict.get(s, "")
                    if inside and l >= 1 and not v.startswith("ERR"):
                        r = core.run_cli(s)
                        ctx.violation(f"{f[2]} at {f[3]} is reported for the text followed by a newline, but the same text without the "
                                      f"trailing newline is accepted and run", s, {"cli": r, "with_newline": bn.strip(), "without": v[:200]})
        for s, b in zip(srcs, astb):
            k = klass(b)
            ctx.nontrivial(k)
            ctx.dist("rejected" if b.startswith("ERR") else "accepted")
            if b.startswith("ERR"):
                ctx.dist("kind:" + " ".join(b.split()[1:3 if "Lex" in b else 2]))
        # oracle on the CLI: every rejected-class representative plus a sample, within the budget
        pick = list(range(len(srcs)))
        if len(pick) > cli_budget:
            pick = sorted(rng.sample(pick, cli_budget))
        # "a syntax error prevents every statement, also earlier ones": prefix a print
        cases = [("print(\"ran\")\n" + srcs[i] if (label in ("short", "unicode") and i % 2) else srcs[i]) for i in pick]
        need = [c for c in cases]
        blocks = core.batch("impl", "ast", need)
        res = core.cli_batch(need, timeout=5)
        ctx.count(label + ":cli", len(need))
        ctx.cov["cli_reconfirmed"] += len(need)
        for s, b, r in zip(need, blocks, res):
            if r["status"] == "timeout" and not b.startswith("ERR") and not b.startswith("TIMEOUT"):
                ctx.exclude("accepted_program_still_running_after_5s")   # a valid program may loop; not a front-end matter
            ok, why = oracle_one(ctx, s, r, b)
            if not ok:
                ctx.violation(why, s, {"cli": r, "front_end": b[:500]})
        if srcs:
            ctx.sample({"stream": label, "src": srcs[len(srcs) // 2][:120], "front_end": astb[len(srcs) // 2][:160]})
    # size: many consecutive terminators, blank lines and comment lines (before valid code and before an error); a syntax error
    # whose offending token is a long string literal with multi-byte text
    n = 60000 if ctx.tier == "thorough" else 20000
    longs = [("\n" * n + "print(1)\n", "0"), (";" * n + "print(1)\n", "0"), ("# c\n" * n + "print(1)\n", "0"),
             ("x := [\n" + "\n" * n + "1]\nprint(x[0])\n", "0"), ("\n" * n + "x := )\n", "103"), ("# é\n" * n + "1 +\n", "103"),
             ("print(1)" + ";\n" * n + "print(1)\n", "0")]
    for neg in ("x := -9223372036854775808\n", "print(1 -9223372036854775808)\n", "x := [-9223372036854775808]\n", "print(-9223372036854775809)\n",
                "x := - 9223372036854775808\n", "print(0--9223372036854775808)\n"):
        longs.append((neg, "103"))
    longs.append(("x := -9223372036854775807\nprint(1)\n", "0"))
    for k in range(34, 46):
        longs.append((f'x := 1 "{"a" * k}é{"b" * 10}"\n', "103"))
        longs.append((f'x := [1 "{"€" * (k // 3)}{"a" * (k % 3)}😀 tail"]\n', "103"))
    lres = core.cli_batch([l[0] for l in longs], timeout=20)
    ctx.count("long-inputs:cli", len(longs))
    for (src, st), r in zip(longs, lres):
        ctx.nontrivial(("long", len(src) // 1000, st, src[:8]))
        ok = r["status"] == st and ("panicked" not in r["stderr"]) and (st == "0" or re.match(r"^t\.sd:\d+:\d+: ", r["stderr"]))
        if st == "0":
            ok = ok and r["stdout"] in ("1\n", "1\n1\n")
        if not ok:
            head = src[:60] + (f" … ({len(src)} characters)" if len(src) > 120 else "")
            ctx.violation(f"a long or wide input is not decided cleanly: expected status {st}, got {r['status']}: {r['stderr'][:160]!r} (input starts {head!r})",
                          src, {"cli": {k2: v[:400] for k2, v in r.items()}})
            break
    literal_streams(ctx, model_ok)
    # invalid UTF-8: read error, nothing run
    bad = [b"print(1)\n\xff", b"\xc3", b"\xe2\x82", b"a := \"\xf0\x9f\"\n", b"\x80print(1)\n", b"# \xfe\n"]
    res = core.cli_batch(bad)
    ctx.count("invalid-utf8:cli", len(bad))
    for s, r in zip(bad, res):
        if r["status"] != "103" or r["stdout"] != "" or not r["stderr"].startswith("t.sd: couldn't read script"):
            ctx.violation("non-UTF-8 input is not reported as a read error with nothing run", s.decode("latin-1"),
                          {"cli": r, "bytes": s.hex()})
