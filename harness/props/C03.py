"""C03 — the front end accepts or cleanly rejects every input, before running anything."""
import re
import core
import gens
import tie

RULE = ("tok+ast correspondence and CLI oracle on: all strings of length <= 3 (quick) / <= 4 (thorough) over a 30-character "
        "alphabet (exhaustive), unterminated literals, truncations and token/byte mutations of the suite and documentation "
        "scripts, random Unicode, invalid UTF-8 byte strings; non-trivial = distinct (accept/reject, error kind, token-kind "
        "sequence) class")
ASSUMPTIONS = ["LALRPOP's generated automaton is not modelled; the Lean recogniser is tied to it by the ast correspondence",
               "the `; expected ...` tail of parse messages is dictated by LALRPOP's tables and is not compared"]

DIAG = re.compile(r"\At\.sd:(\d+):(\d+): (.+)\n\Z", re.S)


def lines_of(src):
    if src == "":
        return 0
    return src.count("\n") + (0 if src.endswith("\n") else 1)


def klass(block):
    if block.startswith("ERR"):
        return " ".join(block.split(" ")[:3 if block.startswith("ERR Lex") else 2])
    return "ok:" + ",".join(sorted(set(re.findall(r"\((\w+) ", block))))[:200]


def oracle_one(ctx, src, r, astblock=None):
    """model-free: the CLI's behaviour on `src` given the implementation's own front-end verdict"""
    if astblock is None:
        astblock = core.batch("impl", "ast", [src])[0]
    if astblock.startswith("PANIC") or astblock.startswith("DIED") or astblock.startswith("TIMEOUT"):
        return False, "front end crashed or did not terminate: " + astblock.strip()[:200]
    if astblock.startswith("ERR"):
        if r["status"] == "timeout":
            return False, "a rejected input did not finish within the time limit"
        f = astblock.split()
        l, c = (f[3] if f[1] == "Lex" else f[2]).split(":")
        if r["status"] != "103":
            return False, f"rejected input but exit status {r['status']}"
        if r["stdout"] != "":
            return False, "rejected input but something was printed"
        m = DIAG.match(r["stderr"])
        if not m:
            return False, "stderr is not one `<path>:<line>:<col>: <message>` diagnostic: " + repr(r["stderr"][:200])
        if (m.group(1), m.group(2)) != (l, c):
            return False, f"CLI reports {m.group(1)}:{m.group(2)}, front end reported {l}:{c}"
        if int(l) < 1 or int(l) > max(1, lines_of(src)) + 1:
            return False, f"reported line {l} outside 1..lines+1 ({lines_of(src)} lines)"
    return True, ""


# White_Space of Unicode (what Rust's `char::is_whitespace` accepts)
RUST_WS = set(map(chr, [9, 10, 11, 12, 13, 32, 0x85, 0xA0, 0x1680, 0x2028, 0x2029, 0x202F, 0x205F, 0x3000] + list(range(0x2000, 0x200B))))
_TOKLINE = re.compile(r"^T (\d+):(\d+) (\d+):(\d+) ")


def unlexed_text(src, tokblock):
    """model-free: the characters of an ACCEPTED file that lie in no token the implementation's own lexer reported, and are
    neither white space, a `;` nor part of a `#` comment.  "Parses the whole file": there must be none.  -> (offset, char) or None"""
    starts = [None, 0]
    for i, ch in enumerate(src):
        if ch == "\n":
            starts.append(i + 1)
    covered = bytearray(len(src) + 2)
    for line in tokblock.split("\n"):
        m = _TOKLINE.match(line)
        if not m:
            continue
        l1, c1, l2, c2 = (int(x) for x in m.groups())
        if l1 >= len(starts) or l2 >= len(starts):
            return None                     # positions outside the file are judged by the line-bound oracle
        a, b = starts[l1] + c1 - 1, starts[l2] + c2 - 1
        for k in range(max(a, 0), min(b, len(src) - 1) + 1):
            covered[k] = 1
    in_comment = False
    for i, ch in enumerate(src):
        if ch == "\n":
            in_comment = False
            continue
        if covered[i]:
            continue            # a `#` inside a token (a string) starts no comment; tokens never begin inside a comment
        if in_comment:
            continue
        if ch == "#":
            in_comment = True
            continue
        if ch not in RUST_WS and ch != ";":      # a suppressed terminator (first / repeated `;`) is dropped from the stream
            return i, ch
    return None


def run(ctx, model_ok):
    rng = ctx.rng
    seeds = gens.seed_programs()
    if ctx.tier == "thorough":
        shorts = gens.short_strings(4)
        trunc = gens.truncations(seeds)
        muts = gens.mutations(seeds, rng, per=250)
        uni = gens.random_unicode(rng, 20000)
    else:
        shorts = gens.short_strings(3)
        trunc = gens.truncations(seeds, rng, 4000)
        muts = gens.mutations(seeds, rng, per=10)
        uni = gens.random_unicode(rng, 1500)
    streams = [("short", shorts), ("unterminated", gens.unterminated()), ("truncations", trunc),
               ("mutations", muts), ("unicode", uni)]
    ctx.cov["exhaustive"] = True
    cli_budget = 60000 if ctx.tier == "thorough" else 4000
    for label, srcs in streams:
        srcs = list(dict.fromkeys(srcs))
        tokb, _ = tie.front(ctx, "tok", srcs, label, model_ok)
        astb, _ = tie.front(ctx, "ast", srcs, label, model_ok)
        # model-free: an accepted file is lexed whole — every character belongs to a reported token, white space or a comment
        nun = 0
        for s, tb, ab in zip(srcs, tokb, astb):
            if ab.startswith("ERR") or ab.startswith("TIMEOUT") or tb.startswith("TIMEOUT") or "ERR" in tb:
                continue
            u = unlexed_text(s, tb)
            ctx.cov["accepted_files_checked_for_unlexed_text"] = ctx.cov.get("accepted_files_checked_for_unlexed_text", 0) + 1
            if u is not None and nun < 3:
                r = core.run_cli(s)
                if r["status"] == "0" or not re.match(r"^t\.sd:\d+:\d+: (unexpected|'|interpolation)", r["stderr"]):
                    nun += 1
                    ctx.violation(f"the file is accepted, but the character {u[1]!r} at offset {u[0]} belongs to no token, white space or "
                                  f"comment: the front end did not read the whole file", s, {"cli": r, "tokens": tb[-600:]})
        # metamorphic (model-free): a lexical error that src + "\n" reports strictly inside src cannot disappear when the
        # trailing newline is removed — the front end must reject src too, no later than there
        if label in ("short", "unicode", "mutations"):
            bare = [s for s in srcs if s and not s.endswith("\n")]
            with_nl = core.batch("impl", "ast", [s + "\n" for s in bare])
            verdict = dict(zip(srcs, astb))
            for s, bn in zip(bare, with_nl):
                if bn.startswith("ERR Lex"):
                    f = bn.split()
                    l, c = (int(x) for x in f[3].split(":"))
                    pre_lines = s.split("\n")
                    inside = l < len(pre_lines) or (l == len(pre_lines) and c <= len(pre_lines[-1]))
                    v = verdict.get(s, "")
                    if inside and l >= 1 and not v.startswith("ERR"):
                        r = core.run_cli(s)
                        ctx.violation(f"{f[2]} at {f[3]} is reported for the text followed by a newline, but the same text without the "
                                      f"trailing newline is accepted and run", s, {"cli": r, "with_newline": bn.strip(), "without": v[:200]})
        for s, b in zip(srcs, astb):
            k = klass(b)
            ctx.nontrivial(k)
            ctx.dist("rejected" if b.startswith("ERR") else "accepted")
            if b.startswith("ERR"):
                ctx.dist("kind:" + " ".join(b.split()[1:3 if "Lex" in b else 2]))
        # oracle on the CLI: every rejected-class representative plus a sample, within the budget
        pick = list(range(len(srcs)))
        if len(pick) > cli_budget:
            pick = sorted(rng.sample(pick, cli_budget))
        # "a syntax error prevents every statement, also earlier ones": prefix a print
        cases = [("print(\"ran\")\n" + srcs[i] if (label in ("short", "unicode") and i % 2) else srcs[i]) for i in pick]
        need = [c for c in cases]
        blocks = core.batch("impl", "ast", need)
        res = core.cli_batch(need, timeout=5)
        ctx.count(label + ":cli", len(need))
        ctx.cov["cli_reconfirmed"] += len(need)
        for s, b, r in zip(need, blocks, res):
            if r["status"] == "timeout" and not b.startswith("ERR") and not b.startswith("TIMEOUT"):
                ctx.exclude("accepted_program_still_running_after_5s")   # a valid program may loop; not a front-end matter
            ok, why = oracle_one(ctx, s, r, b)
            if not ok:
                ctx.violation(why, s, {"cli": r, "front_end": b[:500]})
        if srcs:
            ctx.sample({"stream": label, "src": srcs[len(srcs) // 2][:120], "front_end": astb[len(srcs) // 2][:160]})
    # size: many consecutive terminators, blank lines and comment lines (before valid code and before an error); a syntax error
    # whose offending token is a long string literal with multi-byte text
    n = 60000 if ctx.tier == "thorough" else 20000
    longs = [("\n" * n + "print(1)\n", "0"), (";" * n + "print(1)\n", "0"), ("# c\n" * n + "print(1)\n", "0"),
             ("x := [\n" + "\n" * n + "1]\nprint(x[0])\n", "0"), ("\n" * n + "x := )\n", "103"), ("# é\n" * n + "1 +\n", "103"),
             ("print(1)" + ";\n" * n + "print(1)\n", "0")]
    for neg in ("x := -9223372036854775808\n", "print(1 -9223372036854775808)\n", "x := [-9223372036854775808]\n", "print(-9223372036854775809)\n",
                "x := - 9223372036854775808\n", "print(0--9223372036854775808)\n"):
        longs.append((neg, "103"))
    longs.append(("x := -9223372036854775807\nprint(1)\n", "0"))
    for k in range(34, 46):
        longs.append((f'x := 1 "{"a" * k}é{"b" * 10}"\n', "103"))
        longs.append((f'x := [1 "{"€" * (k // 3)}{"a" * (k % 3)}😀 tail"]\n', "103"))
    lres = core.cli_batch([l[0] for l in longs], timeout=20)
    ctx.count("long-inputs:cli", len(longs))
    for (src, st), r in zip(longs, lres):
        ctx.nontrivial(("long", len(src) // 1000, st, src[:8]))
        ok = r["status"] == st and ("panicked" not in r["stderr"]) and (st == "0" or re.match(r"^t\.sd:\d+:\d+: ", r["stderr"]))
        if st == "0":
            ok = ok and r["stdout"] in ("1\n", "1\n1\n")
        if not ok:
            head = src[:60] + (f" … ({len(src)} characters)" if len(src) > 120 else "")
            ctx.violation(f"a long or wide input is not decided cleanly: expected status {st}, got {r['status']}: {r['stderr'][:160]!r} (input starts {head!r})",
                          src, {"cli": {k2: v[:400] for k2, v in r.items()}})
            break
    # invalid UTF-8: read error, nothing run
    bad = [b"print(1)\n\xff", b"\xc3", b"\xe2\x82", b"a := \"\xf0\x9f\"\n", b"\x80print(1)\n", b"# \xfe\n"]
    res = core.cli_batch(bad)
    ctx.count("invalid-utf8:cli", len(bad))
    for s, r in zip(bad, res):
        if r["status"] != "103" or r["stdout"] != "" or not r["stderr"].startswith("t.sd: couldn't read script"):
            ctx.violation("non-UTF-8 input is not reported as a read error with nothing run", s.decode("latin-1"),
                          {"cli": r, "bytes": s.hex()})
