"""C20 — names must be declared once per scope before use; `_` never binds; only bindable targets."""
import re
import core
import tie
import lib_scope_names as N

RULE = ("name events {declare, assign, op-assign, read, destructuring declare (list / object pattern), collect-only and "
        "collect-last patterns against empty and exactly-fitting sources in declare and in assign mode, fn declare, function "
        "with parameter + call, for target, function + call, and one scope-opening event per kind of body: bare block, "
        "`if true`, taken `else` arm, taken `else if` arm, `while` body (one iteration); close} over the names a, b and `_`: "
        "every sequence of <= 3 (quick) / <= 4 (thorough) events, and every sequence of 4 / 5 events over the reduced alphabet "
        "(name a, declare/read of `_`, all structural events), whose proper prefixes are error-free (exhaustive: what follows "
        "an error never runs), random sequences of 6..10 events; a reference scope machine predicts stdout, exit status and, for the failing "
        "event, `not defined` at the name or `already defined` at the name citing the position of the earlier declaration; "
        "every non-bindable expression kind (16) in every binding position (21, including collect targets against empty sources): exit 103, a `cannot bind to` / type-property "
        "diagnostic at the target, output only up to that point; 22 controls with bindable targets; non-trivial = distinct "
        "(multiset of event kinds, outcome kind, failing event kind, depth) / (expression kind, position)")
ASSUMPTIONS = ["`x += 1` on a name holding a function is predicted as a type error (only status and 'not a name diagnostic' are checked)",
               "object patterns with a key that evaluates to \"_\" are not generated here (C13 generates them)",
               "the wording after `cannot bind to ` is not compared"]

DIAG = re.compile(r"\At\.sd:(\d+):(\d+): (?:in '[^']*': )?(.*)")


def judge(exp_out, exp_status, err, r):
    """-> '' or why the implementation contradicts the machine"""
    if r["status"] != exp_status:
        return f"predicted exit status {exp_status}" + (f" ({err[0]} '{err[1]}' at line {err[2]})" if err else "") + \
            f", got {r['status']}: {r['stderr'][:160]!r}"
    if r["stdout"] != exp_out:
        return f"predicted stdout {exp_out!r}, got {r['stdout']!r}"
    if err is None:
        return ""
    first = r["stderr"].split("\n")[0]
    m = DIAG.match(first)
    if not m:
        return f"stderr does not start with a located diagnostic: {first!r}"
    pos = (int(m.group(1)), int(m.group(2)))
    if err[0] == "undefined":
        want = f"'{err[1]}' is not defined"
    elif err[0] == "already":
        want = f"'{err[1]}' is already defined in the current scope at [{err[4][0]}:{err[4][1]}]"
    else:
        return "" if "defined" not in m.group(3) else f"a name diagnostic where a type error was predicted: {first!r}"
    if m.group(3) != want:
        return f"predicted diagnostic {want!r}, got {m.group(3)!r}"
    if pos != (err[2], err[3]):
        return f"predicted the diagnostic at the name ({err[2]}:{err[3]}), got {pos[0]}:{pos[1]}"
    return ""


def judge_nonbindable(pos, before, r):
    if r["status"] != "103":
        return f"a non-bindable target was not rejected: exit status {r['status']}, stdout {r['stdout']!r}"
    first = r["stderr"].split("\n")[0]
    m = DIAG.match(first)
    if not m:
        return f"stderr does not start with a located diagnostic: {first!r}"
    if r["stdout"] == "" and re.match(r"unexpected |'.*' is too high", m.group(3)):
        return ""          # rejected by the parser before anything ran: also a reported error
    if not (m.group(3).startswith("cannot bind to ") or m.group(3) == "type properties cannot be assigned to"
            or m.group(3) == "object property name isn't a variable"):
        return f"rejected, but not as a binding error: {first!r}"
    if r["stdout"] != before:
        return f"the binding error was raised at the wrong time: stdout {r['stdout']!r}, expected {before!r}"
    if (int(m.group(1)), int(m.group(2))) != pos:
        return f"the binding error is not located at the target ({pos[0]}:{pos[1]}): {first!r}"
    return ""


def oracle_one(ctx, src, r):
    e = N.tokens_of(src)
    if e is not None:
        why = judge(e[1], e[2], e[3], r)
        return (not why), why
    for kind, t in N.NONBINDABLE:
        for p, s, pos, before in N.positions(kind, t):
            if s == src:
                why = judge_nonbindable(pos, before, r)
                return (not why), why
    for tag, s, exp in N.CONTROLS:
        if N.PRE + s == src:
            ok = (r["stdout"], r["status"]) == ("before\n" + exp, "0")
            return ok, "" if ok else f"a bindable target was not bound: {r}"
    return True, "not a C20 script"


def events_stream(ctx, label, items, model_ok, reported):
    """items: [(seq, machine)]"""
    exps = [N.expectation(m) for _, m in items]
    srcs = [e[0] for e in exps]
    impl, dis = tie.run(ctx, srcs, label, model_ok, project=tie.proj_full)
    bad = set()
    for (seq, m), (src, out, st, err), r in zip(items, exps, impl):
        kinds = tuple(sorted(t[0] for t in seq))
        outcome = err[0] if err else "ok"
        ctx.dist("outcome:" + outcome)
        if err:
            ctx.dist(f"failing_event:{seq[-1][0]}:{'_' if seq[-1][-1] == '_' else 'name'}:{outcome}")
        ctx.nontrivial((kinds, outcome, seq[-1], "_" in "".join(seq)))
        why = judge(out, st, err, r)
        if not why:
            continue
        bad.add(src)
        cls = (seq[-1][0], outcome)
        if cls in reported or len(reported) >= 6:
            continue
        c = core.run_cli(src)
        ctx.cov["cli_reconfirmed"] += 1
        why = judge(out, st, err, c)
        if not why:
            continue
        reported.add(cls)
        ctx.violation("name events " + " ".join(seq) + ": " + why, src,
                      {"cli": c, "machine": {"stdout": out, "status": st, "error": err}, "events": list(seq)})
    tie.report_disagreements(ctx, [d for d in dis if d[0] not in bad], label)
    return srcs, impl


def run(ctx, model_ok):
    thorough = ctx.tier == "thorough"
    maxlen = 4 if thorough else 3
    ctx.cov["exhaustive"] = True
    ctx.cov["exhaustive_bound"] = (f"event sequences of length <= {maxlen} (all events) and of length {maxlen + 1} over the reduced "
                                   "alphabet, with error-free proper prefixes")
    reported = set()
    chunk = []

    def stream():
        yield from N.sequences(maxlen)
        for seq, m in N.sequences(maxlen + 1, N.REDUCED):
            if len(seq) == maxlen + 1:
                yield seq, m

    last = None
    for seq, m in stream():
        chunk.append((seq, m))
        if len(chunk) >= 100000:
            last = (chunk,) + events_stream(ctx, "name_events", chunk, model_ok, reported)
            chunk = []
    if chunk:
        last = (chunk,) + events_stream(ctx, "name_events", chunk, model_ok, reported)
    if last:
        ch, srcs, impl = last
        k = [i for i, (s, m) in enumerate(ch) if m.error and m.error[0] == "already" and "!" in s]
        if k:
            ctx.sample({"stream": "name_events", "events": " ".join(ch[k[0]][0]), "src": srcs[k[0]], "impl": impl[k[0]]})
    rs = N.random_sequences(ctx.rng, 100000 if thorough else 20000)
    srcs, impl = events_stream(ctx, "name_events_random", rs, model_ok, reported)
    ctx.sample({"stream": "name_events_random", "events": " ".join(rs[0][0]), "src": srcs[0], "impl": impl[0]})

    # non-bindable targets: through the plain CLI (few cases)
    cases = [(k, t, p, s, pos, before) for k, t in N.NONBINDABLE for p, s, pos, before in N.positions(k, t)]
    res = core.cli_batch([c[3] for c in cases])
    ctx.count("nonbindable:cli", len(cases))
    ctx.cov["cli_reconfirmed"] += len(cases)
    if model_ok:
        mres = core.run_batch("model", [c[3] for c in cases])
        ctx.cov["traces_validated_against_impl"] += len(cases)
        dis = [(c[3], r, m) for c, r, m in zip(cases, res, mres)
               if m["status"] not in ("timeout",) and tie.proj_full(r) != tie.proj_full(m)]
        if dis:
            ctx.cov["model_impl_disagreements"] += len(dis)
    else:
        dis = []
    bad = set()
    for (k, t, p, s, pos, before), r in zip(cases, res):
        first = r["stderr"].split("\n")[0]
        ctx.nontrivial(("nonbindable", k, p))
        ctx.dist("nonbindable:" + ("type-property" if "type properties" in first else "cannot-bind" if "cannot bind" in first
                                   else "object-collect-not-a-variable" if "isn't a variable" in first
                                   else "rejected-by-parser" if r["stdout"] == "" else "other"))
        why = judge_nonbindable(pos, before, r)
        if why:
            bad.add(s)
            ctx.violation(f"target `{t}` ({k}) as {p}: {why}", s, {"cli": r})
    tie.report_disagreements(ctx, [d for d in dis if d[0] not in bad], "nonbindable")
    ctx.sample({"stream": "nonbindable", "kind": cases[37][0], "position": cases[37][2], "src": cases[37][3], "cli": res[37]})
    ctx.sample({"stream": "nonbindable", "kind": cases[-5][0], "position": cases[-5][2], "src": cases[-5][3], "cli": res[-5]})

    ctl = [N.PRE + s for _, s, _ in N.CONTROLS]
    res = core.cli_batch(ctl)
    ctx.count("bindable_controls:cli", len(ctl))
    ctx.cov["cli_reconfirmed"] += len(ctl)
    for (tag, s, exp), src, r in zip(N.CONTROLS, ctl, res):
        ctx.nontrivial(("control", tag))
        if (r["stdout"], r["status"]) != ("before\n" + exp, "0"):
            ctx.violation(f"bindable target rejected or bound wrongly ({tag}): expected stdout {'before' + chr(10) + exp!r}", src,
                          {"cli": r})
    if model_ok:
        mres = core.run_batch("model", ctl)
        dis = [(s, r, m) for s, r, m in zip(ctl, res, mres) if tie.proj_full(r) != tie.proj_full(m)]
        ctx.cov["traces_validated_against_impl"] += len(ctl)
        if dis:
            ctx.cov["model_impl_disagreements"] += len(dis)
            tie.report_disagreements(ctx, dis, "bindable_controls")

    # the predeclared name `print` is a declaration of the outermost scope like any other (it has no position in the file)
    pre = ["print := 1\n", "print = 1\nprint := 2\n", "{\n    print := 1\n}\nprint(2)\n", "fn print() {\n}\n",
           "[print] := [1]\n", "for [print, v] in [1] {\n}\nprint(3)\n", "fn f(print) {\n    return print\n}\nprint(f(4))\n",
           "x := 1\nprint = x\nprint := 2\n", "print += 1\n", "{\n    print := 1\n    print := 2\n}\n"]
    impl, dis = tie.run(ctx, pre, "predeclared_print", model_ok, project=tie.proj_full)
    for src, r in zip(pre, impl):
        ctx.nontrivial(("predeclared", src[:20], r["status"]))
        ok = r["status"] in ("0", "103") and (r["status"] == "0" or re.match(r"t\.sd:\d+:\d+: ", r["stderr"]))
        if not ok:
            ctx.violation("declaring / assigning the predeclared name `print`: not a located diagnostic or success", src, {"cli": core.run_cli(src)})
    tie.report_disagreements(ctx, dis, "predeclared_print")

    # a loop iteration's declarations are gone when the iteration ends — whether it ends normally, by `continue`, or the loop
    # by `break`: the next iteration may declare the name again, and cannot read the previous iteration's
    loops = {"while": ("i := 0\nwhile i < 3 {\n    i += 1\n@B}\n", "i"), "for": ("for [k, i] in [1, 2, 3] {\n@B}\n", "i"),
             "for-range": ("for [k, i] in 1 .. 4 {\n@B}\n", "i")}
    bodies = [
        ("redeclare-after-continue", "    seen := i\n    if i < 3 {\n        continue\n    }\n    print(seen)\n", "3\n", "0"),
        ("redeclare-normal", "    seen := i * 10\n    print(seen)\n", "10\n20\n30\n", "0"),
        ("stale-read-after-continue", "    if i == 2 {\n        print(leak)\n    }\n    leak := i\n    continue\n", "", "103"),
        ("stale-read-normal", "    if i == 2 {\n        print(leak)\n    }\n    leak := i\n", "", "103"),
        ("declared-in-nested-block-then-continue", "    {\n        tmp := i\n        if i == 1 {\n            continue\n        }\n    }\n    tmp := i * 2\n    print(tmp)\n",
         "4\n6\n", "0"),
        ("fn-declared-then-continue", "    fn h() {\n        return i\n    }\n    if i < 3 {\n        continue\n    }\n    print(h())\n", "3\n", "0"),
        ("after-break-outer-name-free", "    last := i\n    break\n", "", "0"),
    ]
    lcases = []
    for lname, (tmpl, _) in loops.items():
        for bname, body, out, st in bodies:
            src = tmpl.replace("@B", body) + ("last := 0\nprint(last)\n" if bname.startswith("after-break") else "")
            lcases.append(((lname, bname), src, out + ("0\n" if bname.startswith("after-break") else ""), st))
    limpl, ldis = tie.run(ctx, [c[1] for c in lcases], "loop_iteration_scope", model_ok, project=tie.proj_full)
    lbad = set()
    for (key, src, out, st), r in zip(lcases, limpl):
        ctx.nontrivial(("loop-scope",) + key)
        if (r["stdout"], r["status"]) != (out, st) or (st == "103" and "'leak' is not defined" not in r["stderr"]):
            c = core.run_cli(src)
            if (c["stdout"], c["status"]) != (out, st) or (st == "103" and "'leak' is not defined" not in c["stderr"]):
                lbad.add(src)
                ctx.violation(f"declarations of a loop iteration ({key[0]}, {key[1]}): expected stdout {out!r} and status {st}", src, {"cli": c})
    tie.report_disagreements(ctx, [d for d in ldis if d[0] not in lbad], "loop_iteration_scope")

    # the implicit `this` of a function reached through an object is a declaration of the call's own scope — the scope of the
    # parameters and of the body's top-level declarations: declaring `this` there again is an error, in an inner scope it is not
    M = 'o := {"n": 7, "f": fn(@P) {\n@B}}\n'
    tcases = [
        ("body-declares-this", M.replace("@P", "").replace("@B", '    this := "shadow"\n    print(this)\n') + "o.f()\n", "", "103",
         "t.sd:2:5: in '<unnamed function>': 'this' is already defined in the current scope at [5:1]\n"),
        ("parameter-named-this", M.replace("@P", "this").replace("@B", "    print(this)\n") + "o.f(1)\n", "", "103",
         "t.sd:4:1: in '<unnamed function>': 'this' is already defined in the current scope at [1:23]\n"),
        ("parameter-pattern-binds-this", M.replace("@P", "{this}").replace("@B", "    print(this)\n") + 'o.f({"this": 1})\n', "", "103",
         "t.sd:4:1: in '<unnamed function>': 'this' is already defined in the current scope at [1:24]\n"),
        ("fn-named-this-in-body", M.replace("@P", "").replace("@B", "    fn this() {\n        return 0\n    }\n") + "o.f()\n", "", "103",
         "t.sd:2:8: in '<unnamed function>': 'this' is already defined in the current scope at [6:1]\n"),
        ("for-target-this-is-inner", M.replace("@P", "").replace("@B", "    for [this, v] in [1] {\n        print(this)\n    }\n    print(this.n)\n") + "o.f()\n", "0\n7\n", "0", None),
        ("inner-block-may-declare-this", M.replace("@P", "").replace("@B", "    {\n        this := 1\n        print(this)\n    }\n    print(this.n)\n    this = 5\n    print(this)\n")
         + "o.f()\nprint(o.n)\n", "1\n7\n5\n7\n", "0", None),
        ("plain-function-may-declare-this", "f := fn() {\n    this := 1\n    print(this)\n}\nf()\n", "1\n", "0", None),
        ("plain-function-in-method-may-declare-this", M.replace("@P", "").replace("@B", "    g := fn() {\n        this := 2\n        return this\n    }\n    print(g())\n    print(this.n)\n")
         + "o.f()\n", "2\n7\n", "0", None),
        ("index-call-declares-this-too", M.replace("@P", "").replace("@B", "    this := 1\n") + 'o["f"]()\n', "", "103", None),
    ]
    timpl, tdis = tie.run(ctx, [c[1] for c in tcases], "implicit_this", model_ok, project=tie.proj_full)
    tbad = set()
    for (key, src, out, st, err), r in zip(tcases, timpl):
        ctx.nontrivial(("implicit-this", key))
        def wrong(x):
            return (x["stdout"], x["status"]) != (out, st) or (err is not None and not x["stderr"].startswith(err)) or \
                (st == "103" and "'this' is already defined in the current scope" not in x["stderr"])
        if wrong(r):
            c = core.run_cli(src)
            if wrong(c):
                tbad.add(src)
                ctx.violation(f"the implicit `this` is a declaration of the call's own scope ({key}): expected stdout {out!r}, status {st}"
                              + (f", stderr starting {err!r}" if err else ""), src, {"cli": c})
    tie.report_disagreements(ctx, [d for d in tdis if d[0] not in tbad], "implicit_this")

    # through the command line itself (the driver reads the file): positions in a script that starts with a `#!` line, a
    # blank first line, CR LF line ends
    drv = [
        ("#!/usr/bin/env seed\nx := 1\nx := 2\n", "t.sd:3:1: 'x' is already defined in the current scope at [2:1]\n"),
        ("#!/usr/bin/env seed\nfn bump() {\n    total += 1\n}\nbump()\n", "t.sd:3:5: in 'bump': 'total' is not defined\nStacktrace:\n  t.sd:5:1: in '<root>'\n"),
        ("\n\nx := 1\n{\n    x := 2\n    x := 3\n}\n", "t.sd:6:5: 'x' is already defined in the current scope at [5:5]\n"),
        ("x := 1\r\nx := 2\r\n", "t.sd:2:1: 'x' is already defined in the current scope at [1:1]\n"),
        ("#!/usr/bin/env seed\n# second comment\nprint(y)\n", "t.sd:3:7: 'y' is not defined\n"),
        # a repeated parameter cites the earlier one's own line and column
        ("fn area(width,\n        height,\n        scale,\n        width) {\n}\n", "t.sd:4:9: 'width' is already declared at [1:9]\n"),
        ("fn area(width, height,\n   width) {\n}\n", "t.sd:2:4: 'width' is already declared at [1:9]\n"),
        ("g := fn(\n  a,\n    b, a) {\n}\ng(1, 2, 3)\n", None),
    ]
    for (src, want), r in zip(drv, core.cli_batch([d[0] for d in drv])):
        ctx.nontrivial(("driver-positions", src[:12]))
        ctx.count("driver_positions:cli", 1)
        if want is None:
            continue
        if r["status"] != "103" or r["stderr"] != want or r["stdout"] != "":
            ctx.violation(f"a name diagnostic through the command line: expected {want!r}", src, {"cli": r})

    # names declared by earlier items of one pattern are in scope for the computed keys of later items
    ck = [("shape := {\"kind\": \"circle\", \"circle\": 3}\n{\"kind\": k, k: size} := shape\nprint(k)\nprint(size)\n", "circle\n3\n", "0"),
          ("k := \"square\"\nshape := {\"kind\": \"circle\", \"circle\": 3, \"square\": 4}\n{\n    {\"kind\": k, k: size} := shape\n    print(size)\n}\nprint(k)\n", "3\nsquare\n", "0"),
          ("shape := {\"kind\": \"circle\"}\n{k2: size, \"kind\": k2} := shape\n", "", "103")]
    cimpl, cdis = tie.run(ctx, [c[0] for c in ck], "pattern_keys", model_ok, project=tie.proj_full)
    for (src, out, st), r in zip(ck, cimpl):
        ctx.nontrivial(("pattern-keys", src[:30]))
        if (r["stdout"], r["status"]) != (out, st) or (st == "103" and "'k2' is not defined" not in r["stderr"]):
            c = core.run_cli(src)
            if (c["stdout"], c["status"]) != (out, st) or (st == "103" and "'k2' is not defined" not in c["stderr"]):
                ctx.violation(f"names declared by earlier items of a pattern and the computed keys of later items: expected stdout {out!r}, status {st}", src, {"cli": c})
    tie.report_disagreements(ctx, cdis, "pattern_keys")

    # parameters are declarations of the call's own scope — however the function was written (statement, expression, method,
    # returned closure) and whatever the parameter is (plain, pattern, rest): a name twice among them is reported when they
    # are bound, a body may not declare a parameter's name again, but may declare any OTHER name that exists outside (the
    # function's own name included); and a callee sees its defining scopes only, never the caller's locals
    pc = []
    DUPS = [("n, n", "1, 2"), ("n, m, n", "1, 2, 3"), ("n, [n]", "1, [2]"), ("[n, n]", "[1, 2]"), ("n, {n}", '1, {"n": 2}'),
            ('{"k": n}, n', '{"k": 1}, 2'), ("n, ..n", "1, 2"), ("[n, ..n]", "[1, 2]"), ("n, [m, [n]]", "1, [2, [3]]"), ("{n, ..n}", '{"n": 1}')]
    for params, args in DUPS:
        forms = [("expression", f"g := fn ({params}) {{\n    return 0\n}}\nprint(\"before\")\ng({args})\nprint(\"after\")\n"),
                 ("method", f"o := {{\"g\": fn ({params}) {{\n    return 0\n}}}}\nprint(\"before\")\no.g({args})\nprint(\"after\")\n"),
                 ("returned", f"fn mk() {{\n    return fn ({params}) {{\n        return 0\n    }}\n}}\ng := mk()\nprint(\"before\")\ng({args})\nprint(\"after\")\n"),
                 ("immediately", f"print(\"before\")\n(fn ({params}) {{\n    return 0\n}})({args})\nprint(\"after\")\n"),
                 ("second-call", f"g := fn ({params}) {{\n    return 0\n}}\nh := g\nprint(\"before\")\nh({args})\nprint(\"after\")\n")]
        for form, src in forms:
            pc.append((f"dup-parameter:{form}:{params}", src, "before\n", "103", ["'n' is"]))
    for decl, what in (("n := 5", "parameter"), ("[n] := [5]", "parameter-by-pattern"), ("fn n() {\n        return 0\n    }", "parameter-by-fn")):
        pc.append((f"body-redeclares-{what}", f"g := fn (n) {{\n    {decl}\n    return n\n}}\nprint(\"before\")\ng(1)\nprint(\"after\")\n", "before\n", "103",
                   ["'n' is already defined in the current scope"]))
        pc.append((f"body-redeclares-rest-{what}", f"fn g(a, ..n) {{\n    {decl}\n    return n\n}}\nprint(\"before\")\ng(1)\nprint(\"after\")\n", "before\n", "103",
                   ["'n' is already defined in the current scope"]))
    pc += [
        ("body-may-declare-own-name", "fn total(xs) {\n    total := 0\n    for [i, x] in xs {\n        total += x\n    }\n    return total\n}\nprint(total([1, 2, 3]))\nprint(total([4]))\n", "6\n4\n", "0", []),
        ("parameter-may-have-own-name", "fn f(f) {\n    return f\n}\nprint(f(3))\nprint(f(4))\n", "3\n4\n", "0", []),
        ("body-may-declare-outer-name", "count := 1\nfn reset() {\n    count := 5\n    return count\n}\nprint(reset())\nprint(count)\n", "5\n1\n", "0", []),
        ("expression-body-may-declare-own-variable", "g := fn () {\n    g := 2\n    return g\n}\nprint(g())\nprint(g())\n", "2\n2\n", "0", []),
        ("recursive-own-name-still-visible", "fn fact(n) {\n    if n == 0 {\n        return 1\n    }\n    return n * fact(n - 1)\n}\nprint(fact(5))\n", "120\n", "0", []),
        ("callee-does-not-see-caller-local", "fn show() {\n    return budget\n}\nfn run() {\n    budget := 42\n    return show()\n}\nprint(\"before\")\nprint(run())\n", "before\n", "103", ["'budget' is not defined"]),
        ("callee-does-not-see-block-local", "fn show() {\n    return budget\n}\n{\n    budget := 42\n    print(\"before\")\n    print(show())\n}\n", "before\n", "103", ["'budget' is not defined"]),
        ("callee-does-not-assign-caller-local", "fn spend() {\n    budget = 0\n    return 0\n}\nfn run() {\n    budget := 42\n    spend()\n    return budget\n}\nprint(\"before\")\nprint(run())\n", "before\n", "103", ["'budget' is not defined"]),
        ("callee-does-not-see-loop-local", "fn show() {\n    return item\n}\nprint(\"before\")\nfor [i, item] in [1] {\n    print(show())\n}\n", "before\n", "103", ["'item' is not defined"]),
        ("callee-does-not-see-callers-parameter", "fn show() {\n    return p\n}\nfn run(p) {\n    return show()\n}\nprint(\"before\")\nprint(run(1))\n", "before\n", "103", ["'p' is not defined"]),
        ("callback-does-not-see-callers-local", "fn apply(f) {\n    hidden := 1\n    return f()\n}\nprint(\"before\")\nprint(apply(fn () {\n    return hidden\n}))\n", "before\n", "103", ["'hidden' is not defined"]),
    ]
    pimpl, pdis = tie.run(ctx, [c[1] for c in pc], "call_scope", model_ok, project=tie.proj_full)
    pbad = set()
    for (key, src, out, st, must), r in zip(pc, pimpl):
        ctx.nontrivial(("call-scope", key))
        ctx.dist("call_scope:" + key.split(":")[0])

        def wrong(x):
            return (x["stdout"], x["status"]) != (out, st) or any(m not in x["stderr"] for m in must)
        if wrong(r):
            c = core.run_cli(src)
            if wrong(c):
                pbad.add(src)
                if len(pbad) <= 4:
                    ctx.violation(f"parameters and body declarations live in the call's own scope, a callee sees only its defining scopes ({key}): "
                                  f"expected stdout {out!r}, status {st}" + (f", a diagnostic containing {must}" if must else ""), src, {"cli": c})
    tie.report_disagreements(ctx, [d for d in pdis if d[0] not in pbad], "call_scope")
