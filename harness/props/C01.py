"""C01 — whole-program behaviour equals the documented semantics."""
import re
import core
import progs
import shrink
import suite
import tie

RULE = ("[scale stream (lib_scale): about 30 constructs — names, literals, printed lines, keys with a multi-byte character at the boundary, statements, items, iterations, jumps followed by calls, nesting and recursion depth, trace depth — each at 24, 25, 40, 41, … 4096 (… 65,536 thorough) units of size, with the output computed in Python] " 
        "(i) the repository's 336 suite scripts: implementation and model must both reproduce the maintainers' expected stdout / "
        "stderr / status; (ii) every `print(…) # expectation` line of docs/features.md, judged on the implementation's output "
        "(model-free); (iii) generated programs (scope- and kind-aware generator; constructs deliberately nested and crossed): the "
        "Lean model is the independent executable reading of the documentation, so a CLI-confirmed difference in stdout, status or "
        "diagnostic is a violation with that program as replay; non-trivial = distinct (set of AST node kinds, outcome class)")
ASSUMPTIONS = ["where the documentation is silent (evaluation order, exact wording of diagnostics) the model follows the code; "
               "message texts come from the templates extracted from the source on every run"]

SEP = "<<<C01-SEP>>>"

# Errata of docs/features.md itself (the prose rule and the repository's tests agree with the implementation; the example's
# comment or code is what is wrong).  Matched by exact text; any other mismatch with the documentation is a violation.
DOC_ERRATA = {
    'xs = {"a": 1, "b": 2, "c": 3}\nprint(xs.b)': "the example assigns with `=` to an undeclared name (should be `:=`); the documented rule "
                                                   "says assigning an undeclared name is an error",
    '{"a": b, "b": a} := xs\nprint(a)': "the prose says the key is on the left and the variable on the right, so `b` gets key \"a\" (1) and "
                                         "`a` gets 2; the example's comments have the two values swapped (tests object_destruct_rename* agree "
                                         "with the prose)",
}


def compact(chunk):
    """the pretty-printed value of `print` flattened to the documentation's one-line notation, spaces and quotes removed"""
    s = chunk.rstrip("\n")
    s = re.sub(r",\n\s*([\]}])", r"\1", s)       # trailing comma before a closer
    s = re.sub(r"\n\s*", "", s)
    return re.sub(r"[\s\"]", "", s)


def doc_cases():
    cases = []
    for block in suite.doc_examples():
        lines = block.split("\n")
        exps = []
        out = []
        if any(re.match(r"^\s+print\(", ln) for ln in lines):
            continue        # prints inside loops/functions run a varying number of times: not separable
        for ln in lines:
            m = re.match(r"^(print\(.*\))\s*#\s*(.+?)\s*$", ln)
            if m:
                out.append(m.group(1))
                out.append(f'print("{SEP}")')
                exps.append(m.group(2))
            elif re.match(r"^print\(", ln):
                out.append(ln)
                out.append(f'print("{SEP}")')
                exps.append(None)
            else:
                out.append(ln)
        if any(e is not None for e in exps):
            cases.append(("\n".join(out) + "\n", exps))
    return cases


def kinds_of(astblock):
    return ",".join(sorted(set(re.findall(r"\((\w+) ", astblock))))


def run(ctx, model_ok):
    # (i) the suite's own expectations
    tests = suite.suite_tests()
    srcs = [t["src"] for t in tests]
    impl = core.run_batch("impl", srcs)
    model = core.run_batch("model", srcs) if model_ok else [None] * len(srcs)
    ctx.count("suite", len(srcs))
    for t, a, b in zip(tests, impl, model):
        stem, name = t["name"].split("::")
        want_err = t["stderr"].replace(f"{stem}/{name}.sd", "t.sd")
        want = (t["stdout"], str(t["code"]), tie.canon_stderr(want_err))
        ctx.nontrivial(("suite", t["name"]))
        if tie.proj_full(a) != want:
            c = core.run_cli(t["src"])
            if tie.proj_full(c) != want:
                ctx.violation("a suite script no longer produces the output the maintainers expect", t["src"],
                              {"test": t["name"], "expected": want, "cli": c})
        if b is not None and b["status"] != "timeout":
            ctx.cov["traces_validated_against_impl"] += 1
            if tie.proj_full(b) != want:
                ctx.cov["model_impl_disagreements"] += 1
                ctx.unproved("tie:suite-expectations", "the model does not reproduce a suite expectation",
                             {"test": t["name"], "input": t["src"], "expected": want, "model": b})
    # (ii) the documentation's examples (model-free)
    dc = doc_cases()
    res = core.cli_batch([s for s, _ in dc])
    ctx.count("docs", len(dc))
    n_exp = 0
    for (src, exps), r in zip(dc, res):
        chunks = r["stdout"].split(SEP + "\n")
        erratum = next((why for key, why in DOC_ERRATA.items() if key in src.replace(f'print("{SEP}")\n', "")), None)
        if erratum:
            ctx.exclude("doc_erratum")
            ctx.cov.setdefault("doc_errata", []).append({"example": src.replace(f'print("{SEP}")\n', "")[:120], "why": erratum})
            continue
        for i, e in enumerate(exps):
            if e is None:
                continue
            n_exp += 1
            got = compact(chunks[i]) if i < len(chunks) else None
            want = re.sub(r"[\s\"]", "", e)
            ctx.nontrivial(("doc", src[:40], i))
            if got != want:
                ctx.violation(f"documentation says this prints `{e}`", src, {"expectation_index": i, "got": chunks[i] if i < len(chunks) else None, "cli": r})
                break
    ctx.dist("doc_expectations", n_exp)
    if model_ok and dc:
        _, dis = tie.run(ctx, [s for s, _ in dc], "docs", model_ok)
        for s, a, b in dis[:3]:
            ctx.violation("the implementation differs from the executable reading of the documentation on a documentation example", s, {"impl": a, "model": b})
    # (iii) generated programs
    n = 60000 if ctx.tier == "thorough" else 3000
    ps = progs.generate(ctx.rng, n, max_depth=5 if ctx.tier == "thorough" else 4)
    impl, dis = tie.run(ctx, ps, "progs", model_ok)
    asts = core.batch("impl", "ast", ps[:2000])
    for s, r, blk in zip(ps, impl, asts):
        ctx.nontrivial((kinds_of(blk), r["status"], re.sub(r"\d+", "N", r["stderr"].split("\n")[0])[:50]))
    for r in impl:
        ctx.dist("progs:" + ("ok" if r["status"] == "0" else "diag" if r["status"] == "103" else "other:" + r["status"]))
        if r["stdout"]:
            ctx.dist("progs:printed_something")
    dis.sort(key=lambda d: len(d[0]))
    seen = set()
    for s, a, b in dis:
        key = (re.sub(r"\d+", "N", a["stderr"])[:40], re.sub(r"\d+", "N", b["stderr"])[:40], a["status"], b["status"])
        if key in seen:
            continue
        seen.add(key)

        def still(t):
            x = core.run_batch("impl", [t])[0]
            y = core.run_batch("model", [t])[0]
            return y["status"] != "timeout" and tie.proj_full(x) != tie.proj_full(y)
        # a program on which the implementation no longer finishes is reported as it is (every shrinking step would wait
        # for the time limit again)
        small = s if a["status"] == "timeout" else shrink.shrink_lines(s, still, budget=80)
        c = core.run_cli(small)
        m = core.run_batch("model", [small])[0]
        if tie.proj_full(c) != tie.proj_full(m):
            ctx.violation("the implementation differs from the executable reading of the documented semantics", small,
                          {"cli": c, "reading": m, "differing_programs": len(dis)})
        if len(seen) >= 5:
            break
    if ps:
        k = len(ps) // 2
        ctx.sample({"stream": "progs", "src": ps[k][:600], "impl": impl[k]})
    ctx.sample({"stream": "docs", "src": dc[3][0][:300], "expectations": dc[3][1]})
    # (iv) the same constructs at every SIZE (lib_scale): each program's output is a function of the size, computed in Python
    import lib_scale

    def scale_judge(c, r):
        if (r["stdout"], r["status"]) == (c[3], c[4]):
            return True, ""
        return False, (f"expected stdout {c[3][:60]!r} and status {c[4]}, got stdout {r['stdout'][:60]!r}, status {r['status']}, "
                       f"stderr {r['stderr'][:160]!r}")
    lib_scale.run_stream(ctx, core, "a construct behaves differently at this size than the documented semantics say", scale_judge)
