"""C06 — integer arithmetic is exact over 64 bits or reports an error."""
import re
import core
import streams
import tie
import lib_ints as li
from lib_ints import MAX, MIN, I64

PID = "C06"
RULE = ("oracle = Python big integers (division truncating toward zero, remainder with the dividend's sign). Streams: the "
        "boundary grid (12 values quick / 41 thorough), every ordered pair x {+ - * / %} x {plain, `x op= y`, `xs[0] op= y`, "
        "`o.k op= y`, `x = x op y`} and x {< <= > >= == !=}; random 64-bit pairs biased to sums/products straddling 2^63; "
        "digit strings with `_`, leading zeros and optional `-` around 2^63; ranges at the extremes; op-assign versus assign "
        "on values of every kind. Operations predicted to succeed share a script per (left operand, form); every operation "
        "predicted to fail has its own script so that its diagnostic is judged. non-trivial = distinct (operator, form, "
        "outcome, sign pair, magnitude-class pair) for arithmetic, (operator, order relation, magnitude pair) for comparisons, "
        "(accepted?, digits, separators?, leading zeros?, sign) for literals, (length, sign of start) for ranges")
ASSUMPTIONS = ["there is no literal for -2^63: it is produced as `0 - 9223372036854775807 - 1`",
               "`x op= y` equals `x = x op y` is checked for operands that are values (a right-hand side that itself assigns "
               "`x` is outside the statement, which quantifies over integer operands; the two forms read `x` at different "
               "moments and the Lean file exhibits the difference)",
               "ranges are materialised lists, so only ranges of at most 40 elements are generated"]

OV = re.compile(r"'(-?\d+) (\S+) (-?\d+)' caused an integer overflow")


def proj(r):
    """printed integers, exit status, and presence / operator / operands of the overflow diagnostic"""
    m = OV.search(r["stderr"])
    return (r["stdout"], r["status"], m.groups() if m else tie.canon_stderr(r["stderr"]))


# ---------------------------------------------------------------------------- spec -> script
META_VALUES = ["0", "7", "-3", "9223372036854775807", '"ab"', '""', "[1, 2]", "[]", "true", "null", '{"a": 1}']


def build(spec):
    k = spec["k"]
    if k == "ops":
        lines = []
        for a, op, b, form in spec["ops"]:
            lines += li.op_lines(a, op, b, form)
        body = li.PRELUDE + "\n".join(lines) + "\n"
    elif k == "fail":
        a, op, b, form = spec["op"]
        body = li.PRELUDE + "\n".join(li.op_lines(a, op, b, form)) + "\n"
    elif k == "cmp":
        a = spec["a"]
        body = "".join(f"print({li.lit(a)} {op} {li.lit(b)})\n" for b in spec["bs"] for op in li.CMP)
    elif k == "condcmp":
        a = spec["a"]
        parts = []
        for b in spec["bs"]:
            for op in li.CMP:
                A, B = li.lit(a), li.lit(b)
                parts.append(f"if {A} {op} {B} {{\n    print(true)\n}} else {{\n    print(false)\n}}\n"
                             f"zr := false\nwhile {A} {op} {B} {{\n    zr = true\n    break\n}}\nprint(zr)\n"
                             f"if false {{\n}} else if {A} {op} {B} {{\n    print(true)\n}} else {{\n    print(false)\n}}\n")
        body = "".join("{\n" + "".join("    " + l + "\n" for l in p.rstrip("\n").split("\n")) + "}\n" for p in parts)
    elif k == "chain":
        x, o1, a, o2, b = spec["x"], spec["o1"], spec["a"], spec["o2"], spec["b"]
        body = f"x := {li.lit(x)}\nprint(x {o1} {a} {o2} {b})\n"
    elif k == "rangetwice":
        a, b = li.lit(spec["a"]), li.lit(spec["b"])
        body = (f"r := {a} .. {b}\nr[0] = 77\nr += [5]\ns := {a} .. {b}\nprint(s)\nn := 0\nfor [i, v] in {a} .. {b} {{\n    n += 1\n    print(v)\n}}\n"
                f"print(r === s)\n")
    elif k == "rangebounds":
        a, b = li.lit(spec["a"]), li.lit(spec["b"])
        body = (f"lo := {a}\nhi := {b}\ncalls := 0\nfn end() {{\n    calls += 1\n    return hi\n}}\nfor [i, v] in lo .. hi {{\n    hi -= 1\n    print(v)\n}}\n"
                f"print(hi)\nhi = {b}\nfor [i, v] in lo .. end() {{\n    hi -= 1\n    print(v)\n}}\nprint(calls)\n")
    elif k == "lits":
        body = "".join(f"print({t})\n" for t in spec["lits"])
    elif k == "badlit":
        body = f"print(1)\nprint({spec['lit']})\n"
    elif k == "range":
        a, b = li.lit(spec["a"]), li.lit(spec["b"])
        body = f"r := {a} .. {b}\nprint(r)\nfor [i, v] in {a} .. {b} {{\n    print(i)\n    print(v)\n}}\n"
    elif k == "meta":
        v1, op, v2, tgt, form = spec["v1"], spec["op"], spec["v2"], spec["tgt"], spec["form"]
        decl = {"x": f"x := {v1}\n", "xs[0]": f"xs := [{v1}]\n", "o.k": f"o := {{\"k\": {v1}}}\n"}[tgt]
        stmt = f"{tgt} {op}= {v2}\n" if form == "opassign" else f"{tgt} = {tgt} {op} {v2}\n"
        # (`old` is what the target held before: a list that was there must not be extended by either form)
        body = decl + f"old := {tgt}\n" + stmt + f"print({tgt})\nprint(old)\n"
    else:
        raise ValueError(k)
    return body + li.trailer(PID, spec)


# ---------------------------------------------------------------------------- the model-free judge
def judge(spec, r):
    k = spec["k"]
    out, st, err = r["stdout"], r["status"], r["stderr"]
    if st not in ("0", "103"):
        return False, f"exit status {st} (neither completed nor reported): {err[:200]}"
    if k == "ops":
        exp = [li.exact(a, op, b) for a, op, b, _ in spec["ops"]]
        got = out.split("\n")[:-1] if out.endswith("\n") else out.split("\n")
        for i, (e, (a, op, b, form)) in enumerate(zip(exp, spec["ops"])):
            g = got[i] if i < len(got) else None
            if g != str(e):
                return False, (f"{a} {op} {b} ({form}): exact result {e}, printed {g!r}"
                               + (f"; run stopped with: {err.strip()[:160]}" if g is None else ""))
        if st != "0" or len(got) != len(exp):
            return False, f"all {len(exp)} results exist, but status {st}, {len(got)} lines: {err[:160]}"
        return True, ""
    if k == "fail":
        a, op, b, form = spec["op"]
        why = "zero divisor" if (op in "/%" and b == 0) else "result outside 64 bits"
        if st != "103":
            return False, f"{a} {op} {b} ({form}) has no 64-bit result ({why}) but the run completed printing {out!r}"
        if out != "":
            return False, f"{a} {op} {b} ({form}) has no result ({why}) but {out!r} was printed (wrapped or saturated?)"
        msg = err.split("\n")[0]
        msg = re.sub(r"^[^ ]*:\d+:\d+: ", "", msg)
        nums = li.ints_in(msg)
        rest = re.sub(r"-?\d+", "", msg)
        if a not in nums or b not in nums or op not in rest:
            return False, f"diagnostic does not name the operation and operands of {a} {op} {b}: {err[:200]!r}"
        return True, ""
    if k == "cmp":
        a = spec["a"]
        exp = ["true" if li.compare(a, op, b) else "false" for b in spec["bs"] for op in li.CMP]
        got = out.split("\n")[:-1]
        if st != "0" or got != exp:
            for i, (e, g) in enumerate(zip(exp, got + [None] * len(exp))):
                if e != g:
                    b, op = spec["bs"][i // len(li.CMP)], li.CMP[i % len(li.CMP)]
                    return False, f"{a} {op} {b}: mathematically {e}, printed {g!r} {err[:120]}"
            return False, f"comparison script: status {st}, {len(got)} of {len(exp)} lines: {err[:160]}"
        return True, ""
    if k == "condcmp":
        a = spec["a"]
        exp = [("true" if li.compare(a, op, b) else "false") for b in spec["bs"] for op in li.CMP for _ in range(3)]
        got = out.split("\n")[:-1]
        if st != "0" or got != exp:
            for i, (e, g) in enumerate(zip(exp, got + [None] * len(exp))):
                if e != g:
                    b, op = spec["bs"][i // (3 * len(li.CMP))], li.CMP[(i // 3) % len(li.CMP)]
                    where = ["if", "while", "else if"][i % 3]
                    return False, f"{a} {op} {b} as the condition of `{where}`: mathematically {e}, the branch taken says {g!r} {err[:120]}"
            return False, f"condition script: status {st}, {len(got)} of {len(exp)} lines: {err[:160]}"
        return True, ""
    if k == "chain":
        x, o1, a, o2, b = spec["x"], spec["o1"], spec["a"], spec["o2"], spec["b"]
        first = li.exact(x, o1, a)
        second = li.exact(first, o2, b) if first is not None else None
        if second is None:
            if st != "103" or out != "":
                return False, (f"{x} {o1} {a} {o2} {b} groups as ({x} {o1} {a}) {o2} {b}: "
                               f"{'the first' if first is None else 'the second'} operation has no 64-bit result, "
                               f"yet status {st}, printed {out!r}")
            nums = li.ints_in(re.sub(r"^[^ ]*:\d+:\d+: ", "", err.split("\n")[0]))
            fa, fb = (x, a) if first is None else (first, b)
            if fa not in nums or fb not in nums:
                return False, f"the overflow diagnostic of {x} {o1} {a} {o2} {b} does not name the operands {fa} and {fb} of the failing operation: {err[:200]!r}"
            return True, ""
        if st != "0" or out != f"{second}\n":
            return False, f"{x} {o1} {a} {o2} {b} = {second} (every intermediate result fits), got status {st}, printed {out!r} {err[:120]}"
        return True, ""
    if k == "rangetwice":
        a, b = spec["a"], spec["b"]
        exp = list(range(a, b))
        want = "[\n" + "".join(f"    {v},\n" for v in exp) + "]\n" + "".join(f"{v}\n" for v in exp) + "false\n"
        if st != "0" or out != want:
            return False, f"{a} .. {b} evaluated again after the first result was changed: expected {exp} both times and two distinct lists; printed {out[:120]!r} status {st} {err[:100]}"
        return True, ""
    if k == "rangebounds":
        a, b = spec["a"], spec["b"]
        exp = list(range(a, b))
        want = exp + [b - len(exp)] + exp + [1]
        if st != "0" or li.ints_in(out) != want:
            return False, (f"the bounds of the range in a `for` header are evaluated once, before the first iteration: {a} .. {b} visits {exp} "
                           f"whatever the body does to the variables the bounds were read from; printed {li.ints_in(out)[:14]} status {st} {err[:100]}")
        return True, ""
    if k == "lits":
        exp = [lit_value(t) for t in spec["lits"]]
        got = out.split("\n")[:-1]
        if st != "0" or got != [str(e) for e in exp]:
            for t, e, g in zip(spec["lits"], exp, got + [None] * len(exp)):
                if str(e) != g:
                    return False, f"literal {t} denotes {e}, printed {g!r} {err[:160]}"
            return False, f"literal script: status {st}: {err[:160]}"
        return True, ""
    if k == "badlit":
        if st != "103" or out != "" or not err.strip():
            return False, (f"literal {spec['lit']} exceeds 2^63-1 and must be rejected before anything runs; "
                           f"status {st}, printed {out!r}, stderr {err[:160]!r}")
        return True, ""
    if k == "range":
        a, b = spec["a"], spec["b"]
        exp = list(range(a, b))
        got = li.ints_in(out)
        want = exp + [v for i, e in enumerate(exp) for v in (i, e)]
        if st != "0" or got != want:
            return False, f"{a} .. {b} should be {exp[:6]}{'...' if len(exp) > 6 else ''} ({len(exp)} elements); printed {got[:12]} status {st} {err[:120]}"
        return True, ""
    return True, ""


def lit_value(text):
    neg = text.startswith("-")
    n = int(text.lstrip("-").replace("_", ""))
    return -n if neg else n


def oracle_one(ctx, src, r):
    spec = li.spec_of(PID, src)
    if spec is None or spec.get("k") == "meta" or build(spec) != src:
        ok = r["status"] in ("0", "103")
        return ok, "" if ok else f"exit status {r['status']}"
    return judge(spec, r)


# ---------------------------------------------------------------------------- streams
def grid_specs(grid, forms):
    specs = []
    for a in grid:
        for form in forms:
            good = []
            for b in grid:
                for op in li.ARITH:
                    if li.exact(a, op, b) is None:
                        specs.append({"k": "fail", "op": [a, op, b, form]})
                    else:
                        good.append([a, op, b, form])
            specs.append({"k": "ops", "ops": good})
        specs.append({"k": "cmp", "a": a, "bs": list(grid)})
    return specs


def clamp(n):
    return max(MIN, min(MAX, n))


def rand_int(rng):
    c = rng.random()
    if c < 0.12:
        return rng.randrange(-10, 11)
    if c < 0.55:
        v = rng.getrandbits(rng.randrange(1, 64))
        return -v if rng.random() < 0.5 else v
    if c < 0.75:
        return rng.randrange(MIN, MAX + 1)
    base = rng.choice([MAX, MIN, 2 ** 31, -2 ** 31, 2 ** 32, -2 ** 32, 3037000499, -3037000500, 2 ** 62, -2 ** 62])
    return clamp(base + rng.randrange(-5, 6))


def rand_pair(rng):
    a = rand_int(rng)
    c = rng.random()
    if c < 0.25 and a not in (0,):
        b = clamp(rng.choice([1, -1]) * (I64 // abs(a)) + rng.randrange(-2, 3))        # product straddles 2^63
    elif c < 0.40:
        b = clamp(rng.choice([1, -1]) * (I64 - abs(a)) + rng.randrange(-2, 3))         # sum / difference straddles 2^63
    elif c < 0.45:
        b = rng.choice([0, 1, -1])
    else:
        b = rand_int(rng)
    return a, b


def random_specs(rng, n, chunk=40):
    specs, good = [], []
    for _ in range(n):
        a, b = rand_pair(rng)
        todo = [(op, "plain") for op in li.ARITH] + [(rng.choice(li.ARITH), rng.choice(li.FORMS[1:]))]
        for op, form in todo:
            if li.exact(a, op, b) is None:
                specs.append({"k": "fail", "op": [a, op, b, form]})
            else:
                good.append([a, op, b, form])
        if len(good) >= chunk:
            specs.append({"k": "ops", "ops": good})
            good = []
    if good:
        specs.append({"k": "ops", "ops": good})
    return specs


def random_cmp_specs(rng, n, chunk=20):
    specs = []
    for _ in range(n // chunk):
        a = rand_int(rng)
        bs = [rng.choice([a, a + 1, a - 1, -a, rand_int(rng), rand_int(rng)]) for _ in range(chunk)]
        specs.append({"k": "cmp", "a": a, "bs": [clamp(b) for b in bs]})
    return specs


def rand_literal(rng):
    c = rng.random()
    if c < 0.45:
        n = MAX + rng.randrange(-3000, 3001)
    elif c < 0.65:
        n = rng.randrange(0, 10 ** rng.randrange(1, 26))
    elif c < 0.85:
        n = rng.getrandbits(rng.randrange(1, 70))
    else:
        n = rng.choice([0, 1, 9, 10, MAX, MAX + 1, MAX - 1, 10 ** 19, 2 ** 64, 2 ** 64 - 1, 2 ** 64 + MAX, 10 ** 18,
                        99999999999999999999, 9223372036854775799, 9223372036854775809, 18446744073709551615 + 5])
    digits = str(n)
    if rng.random() < 0.25:
        digits = "0" * rng.randrange(1, 4) + digits
    p = rng.choice([0, 0, 0.15, 0.5, 1.0])
    text = digits[0]
    for d in digits[1:]:
        if rng.random() < p:
            text += "_" * rng.choice([1, 1, 1, 2])
        text += d
    if rng.random() < 0.3:
        text = "-" + text
    return text


def literal_specs(rng, n, chunk=25):
    specs, good = [], []
    fixed = ["0", "00", "0_0", "1_000_000", "9223372036854775807", "9_223_372_036_854_775_807", "-9223372036854775807",
             "9223372036854775808", "-9223372036854775808", "9_223_372_036_854_775_808", "18446744073709551616",
             "18446744073709551617", "0009223372036854775807", "0009223372036854775808", "-0", "-1_0"]
    for t in fixed + [rand_literal(rng) for _ in range(n)]:
        if abs(lit_value(t)) > MAX:
            specs.append({"k": "badlit", "lit": t})
        else:
            good.append(t)
        if len(good) >= chunk:
            specs.append({"k": "lits", "lits": good})
            good = []
    if good:
        specs.append({"k": "lits", "lits": good})
    return specs


def cond_cmp_specs(grid):
    return [{"k": "condcmp", "a": a, "bs": list(grid)} for a in grid]


def chain_specs():
    xs = [MAX, MAX - 1, MAX - 2, MIN, MIN + 1, MIN + 2, 0, 5, -5, 2 ** 62, -2 ** 62]
    out = []
    for x in xs:
        for o1 in ("+", "-"):
            for o2 in ("+", "-"):
                for a, b in ((1, 1), (1, 2), (2, 1), (3, 3), (1, 0), (0, 1)):
                    out.append({"k": "chain", "x": x, "o1": o1, "a": a, "o2": o2, "b": b})
    for x in (MAX, MIN, 3037000500, -3037000500):
        for o1, o2 in (("*", "/"), ("/", "*"), ("*", "%")):          # one tier: grouped left to right
            for a, b in ((2, 2), (1, 1), (3, 3)):
                out.append({"k": "chain", "x": x, "o1": o1, "a": a, "o2": o2, "b": b})
    return out


def range_twice_specs():
    return [{"k": "rangetwice", "a": a, "b": clamp(a + d)} for a in (0, 1, -2, MAX - 6, MIN, 7) for d in (1, 2, 5)]


def range_specs(rng, n):
    specs = []
    starts = [0, 1, -1, -3, MAX, MAX - 1, MAX - 3, MAX - 40, MIN, MIN + 1, MIN + 3, 2 ** 31 - 2, -2 ** 31 - 2, 2 ** 32 - 1]
    for a in starts:
        for d in [-I64, -5, -1, 0, 1, 2, 3, 40]:
            specs.append({"k": "range", "a": a, "b": clamp(a + d)})
    specs.append({"k": "range", "a": MAX, "b": MIN})
    specs.append({"k": "range", "a": 5, "b": MIN})
    for _ in range(n):
        a = rand_int(rng)
        d = rng.choice([rng.randrange(-3, 41), rng.randrange(0, 6), -rng.getrandbits(rng.randrange(1, 63))])
        specs.append({"k": "range", "a": a, "b": clamp(a + d)})
    return specs


def meta_pairs():
    out = []
    for v1 in META_VALUES:
        for v2 in META_VALUES:
            for op in li.ARITH:
                for tgt in ["x", "xs[0]", "o.k"]:
                    out.append(({"k": "meta", "v1": v1, "op": op, "v2": v2, "tgt": tgt, "form": "opassign"},
                                {"k": "meta", "v1": v1, "op": op, "v2": v2, "tgt": tgt, "form": "assign"}))
    return out


def strip_pos(e):
    return re.sub(r":\d+:\d+:", ":", e)


# ---------------------------------------------------------------------------- bookkeeping
def register(ctx, spec, r):
    k = spec["k"]
    if k in ("ops", "fail"):
        ops = spec["ops"] if k == "ops" else [spec["op"]]
        for a, op, b, form in ops:
            e = li.exact(a, op, b)
            outc = "ok" if e is not None else ("div0" if (op in "/%" and b == 0) else "overflow")
            ctx.nontrivial(("arith", op, form, outc, li.sign(a), li.sign(b), li.magnitude(a), li.magnitude(b)))
            ctx.dist(f"arith:{op}:{outc}")
            ctx.dist(f"form:{form}")
    elif k == "cmp":
        a = spec["a"]
        for b in spec["bs"]:
            rel = "lt" if a < b else "eq" if a == b else "gt"
            ctx.nontrivial(("cmp", rel, li.sign(a), li.sign(b), li.magnitude(a), li.magnitude(b)))
            ctx.dist("cmp:" + rel, len(li.CMP))
    elif k in ("lits", "badlit"):
        for t in (spec["lits"] if k == "lits" else [spec["lit"]]):
            d = t.lstrip("-").replace("_", "")
            ctx.nontrivial(("lit", k == "lits", len(d.lstrip("0")), "_" in t, d.startswith("0") and len(d) > 1, t.startswith("-")))
            ctx.dist("literal:" + ("accepted" if k == "lits" else "rejected"))
            ctx.dist("literal:with_separator" if "_" in t else "literal:plain")
    elif k == "range":
        n = max(0, spec["b"] - spec["a"])
        ctx.nontrivial(("range", min(n, 41), li.sign(spec["a"]), li.magnitude(spec["a"])))
        ctx.dist("range:" + ("empty" if n == 0 else "nonempty"))


def minimise(spec, r):
    """a script of many operations failed: the single offending operation, if it fails alone"""
    if spec["k"] != "ops":
        return spec
    exp = [li.exact(a, op, b) for a, op, b, _ in spec["ops"]]
    got = r["stdout"].split("\n")[:-1]
    for i, e in enumerate(exp):
        if i >= len(got) or got[i] != str(e):
            one = {"k": "ops", "ops": [spec["ops"][i]]}
            if not judge(one, core.run_cli(build(one)))[0]:
                return one
            break
    return spec


def run_stream(ctx, label, specs, model_ok, max_reports=4):
    srcs = [build(s) for s in specs]
    impl, dis = tie.run(ctx, srcs, label, model_ok, project=proj)
    bad = []
    for spec, src, r in zip(specs, srcs, impl):
        register(ctx, spec, r)
        ok, why = judge(spec, r)
        if not ok:
            bad.append((spec, src, r, why))
    seen = set()
    failing_srcs = set()
    for spec, src, r, why in bad:
        failing_srcs.add(src)
        key = (spec["k"], re.sub(r"-?\d+", "N", why)[:60])
        if key in seen or len(seen) >= max_reports:
            continue
        c = core.run_cli(src)
        ctx.cov["cli_reconfirmed"] += 1
        ok, why_cli = judge(spec, c)
        if ok:
            continue
        seen.add(key)
        small = minimise(spec, c)
        ssrc = build(small)
        sc = core.run_cli(ssrc)
        ctx.violation(judge(small, sc)[1] or why_cli, ssrc,
                      {"cli": sc, "stream": label, "failing_scripts_in_stream": len(bad), "spec": small})
    rest = [d for d in dis if d[0] not in failing_srcs]
    tie.report_disagreements(ctx, rest, label)
    if specs:
        i = len(specs) // 3
        ctx.sample({"stream": label, "src": srcs[i][:260], "impl": {k: v[:160] for k, v in impl[i].items()}})
    return impl


def run(ctx, model_ok):
    thorough = ctx.tier == "thorough"
    rng = ctx.rng
    grid = streams.INT_GRID_FULL if thorough else streams.INT_GRID_QUICK
    ctx.cov["exhaustive"] = True
    run_stream(ctx, "corpus", li.corpus_specs(PID, build), model_ok)
    run_stream(ctx, "grid", grid_specs(grid, li.FORMS), model_ok)
    run_stream(ctx, "random", random_specs(rng, 400000 if thorough else 10000), model_ok)
    run_stream(ctx, "random-cmp", random_cmp_specs(rng, 400000 if thorough else 10000), model_ok)
    run_stream(ctx, "literals", literal_specs(rng, 60000 if thorough else 2000), model_ok)
    run_stream(ctx, "ranges", range_specs(rng, 3000 if thorough else 200), model_ok)
    run_stream(ctx, "comparisons-as-conditions", cond_cmp_specs(grid), model_ok)
    run_stream(ctx, "offset-chains", chain_specs(), model_ok)
    run_stream(ctx, "ranges-evaluated-twice", range_twice_specs(), model_ok)
    run_stream(ctx, "range-bounds-evaluated-once", [dict(s, k="rangebounds") for s in range_twice_specs()], model_ok)
    # `x op= y` always equals `x = x op y`, for operands of every kind: same output, same outcome, same message
    pairs = meta_pairs()
    srcs = [build(s) for p in pairs for s in p]
    impl, dis = tie.run(ctx, srcs, "opassign-vs-assign", model_ok, project=proj)
    reported = 0
    for i, (sa, sb) in enumerate(pairs):
        ra, rb = impl[2 * i], impl[2 * i + 1]
        cls = "ok" if ra["status"] == "0" else re.sub(r"'[^']*'", "'_'", strip_pos(ra["stderr"]).split("\n")[0])[:50]
        ctx.nontrivial(("meta", sa["op"], sa["tgt"], cls))
        ctx.dist("opassign-vs-assign:" + ("ok" if ra["status"] == "0" else "error"))
        same = (ra["stdout"], ra["status"], strip_pos(ra["stderr"])) == (rb["stdout"], rb["status"], strip_pos(rb["stderr"]))
        if not same and reported < 3:
            ca, cb = core.run_cli(srcs[2 * i]), core.run_cli(srcs[2 * i + 1])
            ctx.cov["cli_reconfirmed"] += 2
            if (ca["stdout"], ca["status"], strip_pos(ca["stderr"])) != (cb["stdout"], cb["status"], strip_pos(cb["stderr"])):
                reported += 1
                ctx.violation(f"`{sa['tgt']} {sa['op']}= {sa['v2']}` and `{sa['tgt']} = {sa['tgt']} {sa['op']} {sa['v2']}` "
                              f"behave differently for {sa['tgt']} = {sa['v1']}", srcs[2 * i],
                              {"cli_opassign": ca, "cli_assign": cb, "assign_form": srcs[2 * i + 1]})
    tie.report_disagreements(ctx, dis, "opassign-vs-assign")
