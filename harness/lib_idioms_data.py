"""lib_idioms_data.py — further everyday programs, on the theme DATA AND CONTAINERS: lists built in loops, slices read and
assigned with every combination of bounds, stacks and queues, matrices whose rows are shared or copied, records (computed
keys, shorthand, spread with overriding, key order), copying against aliasing, equality against identity, strings as byte
sequences, interpolation with every kind of slot expression, destructuring in every position, integer arithmetic near the
64-bit edges, ranges.  These are the places where an implementer is tempted to add a fast path or a cache (append in place,
hoist a literal out of a loop, intern a string, reuse a slice, skip a copy).

Same format as lib_idioms.IDIOMS, and the expected output is again written by hand from the documented semantics:
MORE: [(name, (property ids…), source, expected stdout, expected status, stderr must contain)]"""


def _s(text):
    """a program written as a block: drop the line break after the opening quotes"""
    return text[1:] if text.startswith("\n") else text


def _l(*xs):
    """print() of a list of already rendered items"""
    return "[\n" + "".join(f"    {x},\n" for x in xs) + "]\n"


def _o(*pairs):
    """print() of an object, pairs given in ascending key order with rendered values"""
    return "{\n" + "".join(f'    "{k}": {v},\n' for k, v in pairs) + "}\n"


def _n(rendered):
    """a rendered container as an item of an enclosing one"""
    return rendered[:-1].replace("\n", "\n    ")


MORE = [
    # ------------------------------------------------------------------ lists built in loops, ranges
    ("build-squares-by-append", ("C11", "C07", "C06"), _s(r'''
xs := []
for [_, i] in 0 .. 4 {
    xs += [i * i]
}
print(xs)
'''), _l(0, 1, 4, 9), "0", ""),
    ("build-by-spread-at-both-ends", ("C13", "C11"), _s(r'''
xs := []
ys := []
for [_, i] in 1 .. 4 {
    xs = [xs.., i]
    ys = [i, ys..]
}
print(xs)
print(ys)
'''), _l(1, 2, 3) + _l(3, 2, 1), "0", ""),
    ("append-leaves-the-earlier-alias", ("C05",), _s(r'''
xs := [1]
snap := xs
xs += [2]
print(snap)
print(xs)
print(snap === xs)
'''), _l(1) + _l(1, 2) + "false\n", "0", ""),
    ("snapshots-taken-while-appending", ("C05", "C19"), _s(r'''
xs := []
snaps := []
for [_, i] in 0 .. 3 {
    snaps += [xs]
    xs += [i]
}
print(snaps)
print(snaps[2] === xs)
'''), _l(_n(_l()), _n(_l(0)), _n(_l(0, 1))) + "false\n", "0", ""),
    ("loop-over-a-list-being-extended", ("C07", "C05"), _s(r'''
xs := [1, 2, 3]
for [_, x] in xs {
    xs += [x * 10]
}
print(xs)
'''), _l(1, 2, 3, 10, 20, 30), "0", ""),
    ("loop-over-a-list-being-overwritten", ("C07", "C11"), _s(r'''
xs := [1, 2, 3]
for [i, x] in xs {
    xs[2] = 99
    print(x)
}
print(xs)
'''), "1\n2\n3\n" + _l(1, 2, 99), "0", ""),
    ("ranges-concatenated-and-nested", ("C08", "C06", "C11"), _s(r'''
print((0 .. 2) + (5 .. 7))
print(0 .. 2 + 1)
print([0 .. 2, 5 .. 7])
'''), _l(0, 1, 5, 6) + _l(0, 1, 2) + _l(_n(_l(0, 1)), _n(_l(5, 6))), "0", ""),
    ("ranges-empty-and-negative", ("C06",), _s(r'''
print(3 .. 3)
print(5 .. 2)
print(-3 .. -1)
print(-1 .. 1)
print((2 .. 2) == [])
'''), _l() + _l() + _l(-3, -2) + _l(-1, 0) + "true\n", "0", ""),
    ("range-as-loop-source", ("C07", "C06"), _s(r'''
total := 0
for [i, n] in 5 .. 8 {
    total += i * n
}
print(total)
ran := 0
for _ in 4 .. 4 {
    ran += 1
}
print(ran)
'''), "20\n0\n", "0", ""),
    ("range-of-a-range-is-an-error", ("C08", "C16"), _s(r'''
print(0 .. 2)
print(0 .. 2 .. 3)
'''), _l(0, 1), "103", "'list'"),
    ("range-is-an-ordinary-fresh-list", ("C05", "C06", "C11"), _s(r'''
fn firsts() {
    return 0 .. 3
}
a := firsts()
a[0] = 9
a += [7]
print(a)
print(firsts())
print((10 .. 13)[1])
print((10 .. 15)[1:3])
'''), _l(9, 1, 2, 7) + _l(0, 1, 2) + "11\n" + _l(11, 12), "0", ""),
    ("range-bounds-from-expressions", ("C08", "C06"), _s(r'''
lo := 2
n := 3
print(lo .. lo + n)
print(lo * 2 .. n * 2)
print(n - lo .. n)
'''), _l(2, 3, 4) + _l(4, 5) + _l(1, 2), "0", ""),
    ("take-and-drop", ("C11", "C05"), _s(r'''
xs := [1, 2, 3, 4, 5]
print(xs[:2])
print(xs[3:])
print((xs[:2] + xs[2:]) == xs)
print(xs[:] === xs)
print(xs[2:2])
print(xs[5:])
'''), _l(1, 2) + _l(4, 5) + "true\nfalse\n" + _l() + _l(), "0", ""),
    ("range-assign-every-bound-form", ("C11",), _s(r'''
xs := [0, 1, 2, 3, 4]
xs[1:3] = [10, 20]
print(xs)
xs[:2] = ["a", "b"]
print(xs)
xs[3:] = ["y", "z"]
print(xs)
xs[:] = [5, 6, 7, 8, 9]
print(xs)
'''), _l(0, 10, 20, 3, 4) + _l("a", "b", 20, 3, 4) + _l("a", "b", 20, "y", "z") + _l(5, 6, 7, 8, 9), "0", ""),
    ("range-assign-from-a-string", ("C11", "C15"), _s(r'''
xs := [1, 2, 3, 4, 5]
xs[1:4] = "abc"
print(xs)
xs[:2] = "hi"
print(xs)
xs[4:] = "!"
print(xs)
'''), _l(1, "a", "b", "c", 5) + _l("h", "i", "b", "c", 5) + _l("h", "i", "b", "c", "!"), "0", ""),
    ("range-assign-cannot-grow", ("C11",), _s(r'''
xs := [1, 2, 3]
print("before")
xs[1:2] = [7, 8]
print(xs)
'''), "before\n", "103", "2 item(s)"),
    ("range-assign-cannot-shrink", ("C11",), _s(r'''
xs := [1, 2, 3]
xs[0:2] = [8, 9]
print(xs)
xs[0:2] = [7]
print(xs)
'''), _l(8, 9, 3), "103", "1 item(s)"),
    ("range-assign-to-an-empty-range", ("C11",), _s(r'''
xs := [1, 2, 3]
print(xs[1:1])
xs[1:1] = []
print("not reached")
'''), _l(), "103", "greater"),
    ("range-assign-overlapping-open-bounds", ("C11", "C05"), _s(r'''
xs := [1, 2, 3, 4]
xs[1:] = xs[:3]
print(xs)
xs[:3] = xs[1:]
print(xs)
'''), _l(1, 1, 2, 3) + _l(1, 2, 3, 3), "0", ""),
    ("range-assign-a-list-to-itself", ("C11", "C05", "C02"), _s(r'''
xs := [1, 2, 3]
xs[:] = xs
print(xs)
xs[0:3] = [xs[2], xs[1], xs[0]]
print(xs)
ys := xs
ys[1:] = xs[:2]
print(xs)
'''), _l(1, 2, 3) + _l(3, 2, 1) + _l(3, 3, 2), "0", ""),
    ("range-read-past-the-end", ("C11",), _s(r'''
xs := [1, 2, 3]
print(xs[1:3])
print(xs[1:4])
'''), _l(2, 3), "103", "outside"),
    ("range-assign-past-the-end", ("C11",), _s(r'''
xs := [1, 2, 3]
print("before")
xs[2:4] = [0, 0]
'''), "before\n", "103", "length"),
    # ------------------------------------------------------------------ stacks and queues
    ("stack-push-and-pop", ("C05", "C11", "C04"), _s(r'''
stack := []
n := 0
fn push(v) {
    stack += [v]
    n += 1
}
fn pop() {
    v := stack[n - 1]
    stack = stack[:n - 1]
    n -= 1
    return v
}
push(1)
push(2)
print(pop())
push(3)
print(stack)
'''), "2\n" + _l(1, 3), "0", ""),
    ("pop-from-an-empty-stack", ("C11", "C04"), _s(r'''
stack := [1]
n := 1
fn pop() {
    v := stack[n - 1]
    stack = stack[:n - 1]
    n -= 1
    return v
}
print(pop())
print(stack)
print(pop())
'''), "1\n" + _l(), "103", "negative"),
    ("queue-drained-by-destructuring", ("C13", "C07"), _s(r'''
queue := ["a", "b"]
queue += ["c"]
served := ""
head := ""
while queue != [] {
    [head, ..queue] = queue
    served += head
}
print(served)
print(queue)
'''), "abc\n" + _l(), "0", ""),
    ("dequeue-by-slice-keeps-the-old-list", ("C05", "C11"), _s(r'''
q := [1, 2, 3]
seen := q
q = q[1:]
print(seen)
print(q)
'''), _l(1, 2, 3) + _l(2, 3), "0", ""),
    ("reverse-by-prepending", ("C11", "C05", "C14"), _s(r'''
fn reversed(xs) {
    out := []
    for [_, x] in xs {
        out = [x] + out
    }
    return out
}
xs := [1, 2, 3]
print(reversed(xs))
print(xs)
print(reversed(reversed(xs)) == xs)
'''), _l(3, 2, 1) + _l(1, 2, 3) + "true\n", "0", ""),
    ("flatten-by-spread", ("C13", "C11"), _s(r'''
nested := [[1, 2], [], [3]]
flat := []
for [_, xs] in nested {
    flat = [flat.., xs..]
}
print(flat)
print(nested[0])
'''), _l(1, 2, 3) + _l(1, 2), "0", ""),
    # ------------------------------------------------------------------ matrices
    ("matrix-rows-shared", ("C05",), _s(r'''
row := [0, 0]
grid := [row, row]
grid[0][1] = 5
print(grid[1][1])
print(grid[0] === grid[1])
print(row)
'''), "5\ntrue\n" + _l(0, 5), "0", ""),
    ("matrix-rows-copied", ("C05", "C10"), _s(r'''
row := [0, 0]
grid := [[row..], row[:], row + []]
grid[0][1] = 5
print(grid[1][1])
print(grid[2][1])
print(row)
print(grid[0] == grid[1])
'''), "0\n0\n" + _l(0, 0) + "false\n", "0", ""),
    ("matrix-built-with-fresh-rows", ("C05", "C04", "C07"), _s(r'''
grid := []
for [_, r] in 0 .. 2 {
    row := []
    for [_, c] in 0 .. 3 {
        row += [r * 3 + c]
    }
    grid += [row]
}
print(grid)
grid[0][0] = 9
print(grid[1][0])
'''), _l(_n(_l(0, 1, 2)), _n(_l(3, 4, 5))) + "3\n", "0", ""),
    ("matrix-built-from-one-row", ("C05",), _s(r'''
row := [0]
grid := []
for _ in 0 .. 3 {
    grid += [row]
}
grid[2][0] = 7
print(grid[0][0])
print(row)
'''), "7\n" + _l(7), "0", ""),
    ("matrix-transpose", ("C11", "C05", "C07"), _s(r'''
m := [[1, 2], [3, 4], [5, 6]]
t := [[], []]
for [_, row] in m {
    for [j, v] in row {
        t[j] += [v]
    }
}
print(t)
'''), _l(_n(_l(1, 3, 5)), _n(_l(2, 4, 6))), "0", ""),
    ("matrix-shallow-copy-shares-rows", ("C05",), _s(r'''
m := [[1], [2]]
c := m[:]
c[0][0] = 10
c[1] = [20]
print(m)
print(c)
print(m[0] === c[0])
'''), _l(_n(_l(10)), _n(_l(2))) + _l(_n(_l(10)), _n(_l(20))) + "true\n", "0", ""),
    ("matrix-column-out-of-range", ("C11",), _s(r'''
m := [[1, 2], [3, 4]]
print(m[1][1])
print(m[1][2])
'''), "4\n", "103", "outside"),
    ("identity-matrix-literal-is-fresh-each-time", ("C05", "C04"), _s(r'''
id := []
for [_, i] in 0 .. 3 {
    row := [0, 0, 0]
    row[i] = 1
    id += [row]
}
print(id[0])
print(id[2])
print(id[1] == [0, 1, 0])
'''), _l(1, 0, 0) + _l(0, 0, 1) + "true\n", "0", ""),
    ("matrix-rows-swapped-not-copied", ("C13", "C05"), _s(r'''
m := [[1, 2], [3, 4]]
top := m[0]
[m[0], m[1]] = [m[1], m[0]]
print(m[1] === top)
m[1][0] = 9
print(top)
print(m[0])
'''), "true\n" + _l(9, 2) + _l(3, 4), "0", ""),
    # ------------------------------------------------------------------ records
    ("computed-keys", ("C12", "C15"), _s(r'''
prefix := "user"
o := {prefix + "_id": 7, $"${prefix}_name": "ann"}
print(o.user_id)
print(o["user_" + "name"])
'''), "7\nann\n", "0", ""),
    ("computed-key-must-be-a-string", ("C12", "C16"), _s(r'''
id := 7
print({"id": id})
print({id: "seven"})
'''), _o(("id", 7)), "103", "'int'"),
    ("shorthand-shares-lists-and-copies-ints", ("C12", "C05"), _s(r'''
a := 1
b := [2]
o := {a, b}
print(o)
o.b[0] = 3
a = 10
print(b)
print(o.a)
'''), _o(("a", 1), ("b", _n(_l(2)))) + _l(3) + "1\n", "0", ""),
    ("spread-with-override-in-both-orders", ("C12", "C13"), _s(r'''
base := {"a": 1, "b": 2}
print({base.., "b": 20})
print({"b": 20, base..})
print(base)
'''), _o(("a", 1), ("b", 20)) + _o(("a", 1), ("b", 2)) + _o(("a", 1), ("b", 2)), "0", ""),
    ("spread-copy-is-shallow", ("C05", "C12"), _s(r'''
inner := [1]
base := {"xs": inner, "n": 1}
copy := {base..}
copy.n = 2
copy.xs[0] = 9
print(base.n)
print(base.xs)
print(copy === base)
print(copy.xs === base.xs)
'''), "1\n" + _l(9) + "false\ntrue\n", "0", ""),
    ("nested-update-through-several-paths", ("C12", "C05"), _s(r'''
db := {"users": {"ann": {"tags": ["a"]}}}
ann := db.users.ann
db["users"]["ann"].tags += ["b"]
ann.tags[0] = "z"
db.users["ann"]["age"] = 30
print(ann)
print(db.users.ann === ann)
'''), _o(("age", 30), ("tags", _n(_l("z", "b")))) + "true\n", "0", ""),
    ("keys-that-look-like-numbers", ("C12", "C07"), _s(r'''
o := {"10": "ten", "9": "nine", "b": 1, "a": 2, "B": 3}
o["1"] = "one"
for [k, _] in o {
    print(k)
}
'''), "1\n10\n9\nB\na\nb\n", "0", ""),
    ("odd-keys", ("C12", "C15", "C19"), _s(r'''
o := {}
o[""] = "empty"
o["two words"] = 2
o["ключ"] = 3
o[" "] = "space"
print(o[""])
print(o)
'''), 'empty\n{\n    "": empty,\n    " ": space,\n    "two words": 2,\n    "ключ": 3,\n}\n', "0", ""),
    ("missing-property-is-an-error", ("C12",), _s(r'''
o := {"name": "n"}
print(o.name)
print(o.colour)
'''), "n\n", "103", "colour"),
    ("word-count-with-default-by-spread", ("C12", "C13"), _s(r'''
counts := {}
for [_, w] in ["b", "a", "b", "c", "b"] {
    counts = {w: 0, counts..}
    counts[w] += 1
}
print(counts)
'''), _o(("a", 1), ("b", 3), ("c", 1)), "0", ""),
    ("same-pairs-in-any-insertion-order", ("C10", "C12", "C19"), _s(r'''
p := {"x": 1, "y": 2}
q := {}
q.y = 2
q.x = 1
print(p == q)
print(p === q)
print({p.., q..} == p)
print(q)
'''), "true\nfalse\ntrue\n" + _o(("x", 1), ("y", 2)), "0", ""),
    ("literal-entries-in-source-order-last-wins", ("C12", "C14"), _s(r'''
log := []
fn v(n) {
    log += [n]
    return n
}
o := {"k": v(1), "j": v(2), "k": v(3)}
print(o)
print(log)
'''), _o(("j", 2), ("k", 3)) + _l(1, 2, 3), "0", ""),
    ("functional-record-update", ("C12", "C05", "C14"), _s(r'''
fn with_age(p, age) {
    return {p.., age}
}
ann := {"name": "ann", "age": 1}
older := with_age(ann, 2)
print(ann.age)
print(older.age)
print(older.name)
'''), "1\n2\nann\n", "0", ""),
    ("op-assign-through-a-computed-key", ("C12", "C06"), _s(r'''
o := {"ab": 1}
k := "a"
o[k + "b"] += 1
o.ab *= 10
o["ab"] -= 1
print(o.ab)
print(o)
'''), "19\n" + _o(("ab", 19)), "0", ""),
    ("list-spread-into-an-object-is-an-error", ("C13", "C16", "C12"), _s(r'''
xs := [1, 2]
print([xs..])
print({xs..})
'''), _l(1, 2), "103", "'list'"),
    ("keys-and-values", ("C12", "C07"), _s(r'''
o := {"b": 2, "a": 1}
ks := []
vs := []
for [k, v] in o {
    ks += [k]
    vs += [v]
}
print(ks)
print(vs)
'''), _l("a", "b") + _l(1, 2), "0", ""),
    ("object-extended-while-iterated", ("C07", "C12"), _s(r'''
o := {"a": 1, "b": 2}
for [k, v] in o {
    o[k + k] = v * 10
}
print(o)
'''), _o(("a", 1), ("aa", 10), ("b", 2), ("bb", 20)), "0", ""),
    ("zip-into-an-object", ("C12", "C07", "C11"), _s(r'''
ks := ["b", "a"]
vs := [1, 2]
o := {}
for [i, k] in ks {
    o[k] = vs[i]
}
print(o)
'''), _o(("a", 2), ("b", 1)), "0", ""),
    # ------------------------------------------------------------------ copying against aliasing
    ("four-ways-to-copy", ("C05",), _s(r'''
xs := [1, 2]
a := xs
b := [xs..]
c := xs[:]
d := xs + []
xs[0] = 9
print(a[0])
print(b[0])
print(c[0])
print(d[0])
print([a === xs, b === xs, c === xs, d === xs])
'''), "9\n1\n1\n1\n" + _l("true", "false", "false", "false"), "0", ""),
    ("reassigning-against-mutating-a-parameter", ("C14", "C05"), _s(r'''
fn clear(xs) {
    xs = []
}
fn zero(xs) {
    xs[0] = 0
}
data := [1, 2]
clear(data)
print(data)
zero(data)
print(data)
'''), _l(1, 2) + _l(0, 2), "0", ""),
    ("returned-list-is-the-stored-list", ("C05", "C14"), _s(r'''
store := [1]
fn get() {
    return store
}
fn copy() {
    return [store..]
}
print(get() === store)
print(copy() === store)
get()[0] = 5
copy()[0] = 6
print(store)
'''), "true\nfalse\n" + _l(5), "0", ""),
    ("destructuring-shares-the-elements", ("C13", "C05"), _s(r'''
pair := [[1], [2]]
[a, b] := pair
a[0] = 10
print(pair[0])
[first, ..rest] := pair
print(rest === pair)
print(rest[0] === pair[1])
[..all] := pair
print(all === pair)
print(all == pair)
'''), _l(10) + "false\ntrue\nfalse\ntrue\n", "0", ""),
    ("append-to-a-parameter", ("C14", "C05"), _s(r'''
fn add(xs, v) {
    xs += [v]
    return xs
}
a := [1]
b := add(a, 2)
print(a)
print(b)
'''), _l(1) + _l(1, 2), "0", ""),
    ("strings-and-ints-are-values", ("C05",), _s(r'''
s := "abc"
t := s
t += "d"
xs := [1]
n := xs[0]
n += 1
print(s)
print(t)
print(xs)
print(n)
'''), "abc\nabcd\n" + _l(1) + "2\n", "0", ""),
    ("closure-log-per-instance", ("C04", "C05"), _s(r'''
fn counter() {
    log := []
    return fn (v) {
        log += [v]
        return log
    }
}
a := counter()
b := counter()
a(1)
r1 := a(2)
print(b(3))
r3 := a(4)
print(r1)
print(r3)
'''), _l(3) + _l(1, 2) + _l(1, 2, 4), "0", ""),
    ("aliases-stored-in-containers", ("C05", "C12"), _s(r'''
xs := [1]
box := {"xs": xs}
lst := [xs]
box.xs[0] = 2
lst[0] += [3]
print(xs)
print(lst[0])
print(box.xs === xs)
print(lst[0] === xs)
'''), _l(2) + _l(2, 3) + "true\nfalse\n", "0", ""),
    ("collected-arguments-are-a-fresh-list", ("C13", "C14", "C05"), _s(r'''
fn all(..xs) {
    return xs
}
args := [1, 2]
r := all(args..)
print(r == args)
print(r === args)
print(all())
'''), "true\nfalse\n" + _l(), "0", ""),
    ("spread-arguments", ("C13", "C14"), _s(r'''
fn sum3(a, b, c) {
    return a + b + c
}
xs := [1, 2, 3]
print(sum3(xs..))
print(sum3(10, xs[1:]..))
print(sum3([1, 2]..))
'''), "6\n15\n", "103", "expected 3"),
    # ------------------------------------------------------------------ equality against identity
    ("equal-however-built", ("C10", "C05"), _s(r'''
a := [[1, 2], {"k": [3]}]
inner := {}
inner["k"] = 3 .. 4
b := [[1] + [2], inner]
print(a == b)
print(a != b)
print(a === b)
print(b[1] === inner)
'''), "true\nfalse\nfalse\ntrue\n", "0", ""),
    ("search-result-compared-with-null", ("C10", "C16", "C07"), _s(r'''
fn find(xs, v) {
    for [i, x] in xs {
        if x == v {
            return i
        }
    }
    return null
}
miss := find([1, 2], 5)
hit := find([1, 2], 2)
print(miss)
print(hit)
print(miss == null)
print(hit == null)
'''), "<null>\n1\ntrue\n", "103", "'null'"),
    ("fresh-record-per-call", ("C05", "C10", "C14"), _s(r'''
fn blank() {
    return {"n": 0}
}
a := blank()
b := blank()
a.n = 1
print(b.n)
print(a === b)
print(blank() == b)
'''), "0\nfalse\ntrue\n", "0", ""),
    ("fresh-record-per-iteration", ("C05", "C10"), _s(r'''
cells := []
for _ in 0 .. 2 {
    cells += [{"v": 0}]
}
cells[0].v = 1
print(cells[1].v)
print(cells[0] === cells[1])
print(cells[1] == {"v": 0})
'''), "0\nfalse\ntrue\n", "0", ""),
    ("identity-of-strings-is-an-error", ("C10", "C16"), _s(r'''
a := "x"
print(a == "x")
print(a === "x")
'''), "true\n", "103", "'==='"),
    ("type-mismatch-deep-inside-equality", ("C10", "C16"), _s(r'''
print([1, [2]] == [1, [2]])
print([1, [2]] == [1, ["2"]])
'''), "true\n", "103", "'string'"),
    ("equality-with-shared-substructure", ("C10", "C02"), _s(r'''
leaf := [1]
a := [leaf, leaf]
b := [[1], [1]]
print(a == b)
print(b == a)
print(a == a)
print([a, leaf] == [b, [1]])
leaf[0] = 2
print(a == b)
'''), "true\ntrue\ntrue\ntrue\nfalse\n", "0", ""),
    # ------------------------------------------------------------------ strings as byte sequences
    ("byte-lengths", ("C15",), _s(r'''
s := "héllo"
print(s->len())
print("€"->len())
print(""->len())
print(("a" + "é")->len())
'''), "6\n3\n0\n3\n", "0", ""),
    ("ascii-index-and-slice", ("C11", "C15"), _s(r'''
s := "hello"
print(s[0])
print(s[1:3])
print(s[:1] + s[1:])
print(s[4:] == "o")
'''), "h\nel\nhello\ntrue\n", "0", ""),
    ("slicing-on-character-boundaries", ("C15", "C11"), _s(r'''
s := "aé€b"
print(s->len())
print(s[1:3])
print(s[3:6])
print(s[6])
print(s[1:3] == "é")
print((s[:1] + s[1:3] + s[3:]) == s)
'''), "7\né\n€\nb\ntrue\ntrue\n", "0", ""),
    ("for-over-non-ascii-text-walks-bytes", ("C15", "C07"), _s(r'''
n := 0
out := ""
for [_, b] in "añb" {
    n += 1
    out += b
}
print(n)
print(out == "añb")
print(out)
'''), "4\ntrue\nañb\n", "0", ""),
    ("printing-half-a-character", ("C15", "C02"), _s(r'''
s := "né"
print(s[0])
print(s[1:3])
print(s[1])
'''), "n\né\n", "103", "UTF-8"),
    ("strings-equal-however-built", ("C15", "C10"), _s(r'''
a := "ab" + "c"
b := $"a${"bc"}"
c := "abcd"[:3]
print(a == b)
print(b == c)
print(a != "abd")
'''), "true\ntrue\ntrue\n", "0", ""),
    ("hex-escapes", ("C15", "C09"), _s(r'''
print("\x41" == "A")
print("\xe9" == "é")
print("\xe9"->len())
print("tab\x09end"->len())
print("\x41\x42" + "C")
'''), "true\ntrue\n2\n7\nABC\n", "0", ""),
    ("string-index-past-the-end", ("C11", "C15"), _s(r'''
s := "hello"
print(s[4])
print(s[5])
'''), "o\n", "103", "outside"),
    ("strings-have-no-order", ("C16",), _s(r'''
print("a" != "b")
print("a" < "b")
'''), "true\n", "103", "'<'"),
    ("strings-cannot-be-updated", ("C11", "C16"), _s(r'''
s := "abc"
t := "x" + s[1:]
print(t)
s[0] = "x"
'''), "xbc\n", "103", "update"),
    ("reverse-a-string", ("C15", "C07"), _s(r'''
s := "abc"
r := ""
for [_, ch] in s {
    r = ch + r
}
print(r)
print(s)
'''), "cba\nabc\n", "0", ""),
    ("string-doubling", ("C15", "C11"), _s(r'''
s := "ab"
for _ in 0 .. 3 {
    s += s
}
print(s->len())
print(s[14:])
'''), "16\nab\n", "0", ""),
    ("join-with-separator", ("C15", "C07"), _s(r'''
parts := ["a", "b", "c"]
out := ""
for [i, p] in parts {
    if i > 0 {
        out += ", "
    }
    out += p
}
print(out)
'''), "a, b, c\n", "0", ""),
    ("string-into-list-slots", ("C11", "C15"), _s(r'''
xs := [0, 0, 0]
xs[:] = "abc"
print(xs)
xs[1:] = "é"
print((xs[1] + xs[2]) == "é")
print(xs[0])
'''), _l("a", "b", "c") + "true\na\n", "0", ""),
    ("string-range-past-the-end", ("C11", "C15"), _s(r'''
s := "ab"
print(s[2:])
print(s[1:3])
'''), "\n", "103", "outside"),
    # ------------------------------------------------------------------ interpolation
    ("every-kind-of-slot", ("C15", "C08"), _s(r'''
name := "ann"
o := {"city": "x", "tags": ["t1", "t2"]}
fn up(s) {
    return s + "!"
}
print($"${name}")
print($"${o.city}/${o["city"]}/${o.tags[1]}")
print($"${up(name)} ${name + "?"} ${name[0:1]} ${name->type()}")
print($"${$"${name}"}")
print($"<${"x"}${""}${name}>")
'''), "ann\nx/x/t2\nann! ann? a string\nann\n<xann>\n", "0", ""),
    ("slots-holding-literals-with-braces", ("C15",), _s(r'''
print($"${ {"k": "v"}.k }")
print($"${{"k": "v"}["k"]}")
print($"${["a", "b"][1]}")
print($"${ {"a": {"b": "deep"}}.a.b }")
'''), "v\nv\nb\ndeep\n", "0", ""),
    ("slot-must-be-a-string", ("C15", "C16"), _s(r'''
n := 3
print($"items: ${"3"}")
print($"items: ${n}")
'''), "items: 3\n", "103", "'int'"),
    ("dollar-and-quote-escapes", ("C15",), _s(r'''
x := "v"
print("cost: \$5")
print($"\${x} is ${x}")
print("a\"b\\c")
'''), 'cost: $5\n${x} is v\na"b\\c\n', "0", ""),
    ("line-built-by-interpolating-itself", ("C15", "C07"), _s(r'''
line := ""
for [i, w] in ["a", "b", "c"] {
    line = $"${line}[${w}]"
}
print(line)
'''), "[a][b][c]\n", "0", ""),
    ("unicode-around-slots", ("C15",), _s(r'''
x := "ö"
s := $"é${x}ü${x}€"
print(s)
print(s == ("é" + x + "ü" + x + "€"))
print(s->len())
'''), "éöüö€\ntrue\n11\n", "0", ""),
    ("slot-with-undefined-name", ("C15", "C20"), _s(r'''
who := "w"
print($"hi ${who}")
print($"hi ${whom}")
'''), "hi w\n", "103", "'whom' is not defined"),
    # ------------------------------------------------------------------ destructuring
    ("nested-declaration", ("C13",), _s(r'''
[a, [b, {c, "d": [e]}]] := [1, [2, {"c": 3, "d": [4]}]]
print(a + b + c + e)
'''), "10\n", "0", ""),
    ("assign-into-mixed-targets", ("C13", "C11", "C12"), _s(r'''
xs := [0, 0]
o := {"k": 0}
n := 0
[xs[1], o.k, n] = [1, 2, 3]
print(xs)
print(o.k)
print(n)
'''), _l(0, 1) + "2\n3\n", "0", ""),
    ("parameter-patterns", ("C13", "C14"), _s(r'''
fn dist([x1, y1], [x2, y2]) {
    return (x2 - x1) + (y2 - y1)
}
fn name_of({name, ..others}) {
    return [name, others]
}
print(dist([1, 2], [4, 6]))
print(name_of({"name": "ann", "age": 3}))
'''), "7\n" + _l("ann", _n(_o(("age", 3)))), "0", ""),
    ("for-target-patterns", ("C13", "C07"), _s(r'''
for [i, [name, {age}]] in [["ann", {"age": 3}], ["bob", {"age": 5}]] {
    print(name)
    print(i + age)
}
for [k, [lo, hi]] in {"b": [1, 2], "a": [3, 5]} {
    print(k)
    print(hi - lo)
}
'''), "ann\n3\nbob\n6\na\n2\nb\n1\n", "0", ""),
    ("rotate-three-variables", ("C13",), _s(r'''
[a, b, c] := [1, 2, 3]
for _ in 0 .. 2 {
    [a, b, c] = [b, c, a]
}
print([a, b, c])
'''), _l(3, 1, 2), "0", ""),
    ("quotient-and-remainder-from-a-function", ("C13", "C06"), _s(r'''
fn divmod(a, b) {
    return [a / b, a % b]
}
[q, r] := divmod(17, 5)
print(q)
print(r)
[q, r] = divmod(-17, 5)
print(q)
print(r)
'''), "3\n2\n-3\n-2\n", "0", ""),
    ("result-record-taken-apart", ("C13", "C12"), _s(r'''
fn parse() {
    return {"ok": true, "value": [1, 2]}
}
{ok, "value": [first, _]} := parse()
print(ok)
print(first)
'''), "true\n1\n", "0", ""),
    ("pattern-of-the-wrong-length", ("C13",), _s(r'''
[a, b] := [1, 2]
print(a + b)
[c, d] := [1, 2, 3]
'''), "3\n", "103", "3 item(s)"),
    ("string-taken-apart-as-a-list", ("C13", "C16"), _s(r'''
[a, b] := ["x", "y"]
print(a + b)
[c, d] := "xy"
'''), "xy\n", "103", "'string'"),
    ("bubble-sort-by-swaps", ("C13", "C11", "C07"), _s(r'''
xs := [3, 1, 2]
for _ in xs {
    for [i, _] in xs[1:] {
        if xs[i] > xs[i + 1] {
            [xs[i], xs[i + 1]] = [xs[i + 1], xs[i]]
        }
    }
}
print(xs)
'''), _l(1, 2, 3), "0", ""),
    ("collect-may-be-empty", ("C13", "C05"), _s(r'''
[a, b, ..r] := [1, 2]
print(r)
[x, ..s] := [1, 2, 3]
print(s)
print(([x] + s) == [1, 2, 3])
[..all] := []
print(all)
'''), _l() + _l(2, 3) + "true\n" + _l(), "0", ""),
    ("object-rest-is-lossless-and-fresh", ("C13", "C05", "C12"), _s(r'''
o := {"a": 1, "b": 2, "c": 3}
{b, ..rest} := o
rest.a = 100
print(o.a)
print({b, rest..})
'''), "1\n" + _o(("a", 100), ("b", 2), ("c", 3)), "0", ""),
    ("name-twice-in-one-pattern", ("C13", "C20"), _s(r'''
[a, b] := [1, 2]
print(a)
[c, c] := [1, 2]
'''), "1\n", "103", "'c' is bound"),
    ("pattern-redeclares-a-variable", ("C20", "C13"), _s(r'''
x := 1
print(x)
[x, y] := [2, 3]
'''), "1\n", "103", "'x' is already defined"),
    ("underscore-discards-and-stays-unreadable", ("C13", "C20"), _s(r'''
[_, _, c] := [1, 2, 3]
{"a": _, ..rest} := {"a": 1, "b": 2}
print(c)
print(rest)
print(_)
'''), "3\n" + _o(("b", 2)), "103", "'_'"),
    ("collect-must-come-last", ("C13", "C03"), _s(r'''
print("never printed")
[a, ..r, b] := [1, 2, 3]
'''), "", "103", "t.sd:2:8:"),
    # ------------------------------------------------------------------ integers
    ("integer-edges", ("C06",), _s(r'''
max := 9223372036854775807
min := 0 - max - 1
print(min)
print(max + min)
print(max - 1 + 1)
print(min + 1 - 1)
print(min < max)
print(max > (max - 1))
'''), "-9223372036854775808\n-1\n9223372036854775807\n-9223372036854775808\ntrue\ntrue\n", "0", ""),
    ("one-past-the-largest-integer", ("C06", "C02"), _s(r'''
max := 9223372036854775807
print(max + 0)
print(max + 1)
'''), "9223372036854775807\n", "103", "overflow"),
    ("negating-the-smallest-integer", ("C06", "C02"), _s(r'''
min := -9223372036854775807 - 1
print(0 - (min + 1))
print(0 - min)
'''), "9223372036854775807\n", "103", "overflow"),
    ("division-and-remainder-signs", ("C06", "C13"), _s(r'''
for [_, [a, b]] in [[7, 2], [-7, 2], [7, -2], [-7, -2]] {
    print([a / b, a % b, (a / b) * b + a % b])
}
'''), _l(3, 1, 7) + _l(-3, -1, -7) + _l(-3, 1, 7) + _l(3, -1, -7), "0", ""),
    ("smallest-integer-divided", ("C06", "C02"), _s(r'''
min := -9223372036854775807 - 1
print(min % -1)
print(min % 2)
print(min / 2)
print(min % 10)
print(min / 10)
'''), "0\n0\n-4611686018427387904\n-8\n-922337203685477580\n", "0", ""),
    ("digit-separators", ("C06", "C09"), _s(r'''
print(1_000_000 * 1_000)
print(1_0 == 10)
print(-1_0 + 1_1)
'''), "1000000000\ntrue\n1\n", "0", ""),
    ("op-assign-at-the-edge", ("C06",), _s(r'''
x := 9223372036854775806
x += 1
print(x)
x += 1
print(x)
'''), "9223372036854775807\n", "103", "overflow"),
    ("factorial-until-it-overflows", ("C06", "C07"), _s(r'''
f := 1
for [_, n] in 1 .. 30 {
    f *= n
    if n % 5 == 0 {
        print(f)
    }
}
'''), "120\n3628800\n1307674368000\n2432902008176640000\n", "103", "overflow"),
    ("ring-buffer-index", ("C06", "C11"), _s(r'''
ring := [0, 0, 0]
for [_, i] in 0 .. 5 {
    ring[i % 3] = i
}
print(ring)
'''), _l(3, 4, 2), "0", ""),
    ("negative-remainder-as-an-index", ("C06", "C11"), _s(r'''
ring := [10, 20, 30]
i := 0
print(ring[(i + 1) % 3])
print(ring[(i - 1) % 3])
'''), "20\n", "103", "negative"),
    ("sum-of-a-range", ("C06", "C07"), _s(r'''
sum := 0
for [_, n] in 1 .. 101 {
    sum += n
}
print(sum)
print(sum * sum - sum)
'''), "5050\n25497450\n", "0", ""),
    ("digits-of-a-number", ("C06", "C11", "C15"), _s(r'''
digits := "0123456789"
n := 9075
s := ""
while n > 0 {
    s = digits[n % 10] + s
    n /= 10
}
print(s)
print(s->len())
'''), "9075\n4\n", "0", ""),
    ("binary-search", ("C06", "C11", "C07"), _s(r'''
xs := [1, 3, 5, 7, 9, 11]
lo := 0
hi := 6
while lo < hi {
    mid := (lo + hi) / 2
    if xs[mid] < 7 {
        lo = mid + 1
    } else {
        hi = mid
    }
}
print(lo)
'''), "3\n", "0", ""),
]
