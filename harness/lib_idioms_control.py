"""lib_idioms_control.py — further everyday idioms (same tuple format as lib_idioms.IDIOMS) on control flow, functions,
closures, `this`, scopes, layout and diagnostics: the places where an implementer is tempted to add a fast path, a cache or a
shortcut (loop conditions evaluated once, a loop variable shared by all iterations, a chain of `else if` evaluated eagerly,
`this` taken from the defining object, a diagnostic attributed to the wrong operator of a chain or the wrong frame, …).

The expected output of every program is written by hand from the documented semantics (docs/features.md, DESIGN Appendix A);
about half of them END in a reported error after printing something, and pin the start of the diagnostic line
(`t.sd:<line>:<col>: [in '<function>': ]`) or lines of the `Stacktrace:`.

MORE: [(name, (property ids…), source, expected stdout, expected status, stderr must contain)]"""


def _l(*xs):
    return "[\n" + "".join(f"    {x},\n" for x in xs) + "]\n"


def _o(*kvs):
    return "{\n" + "".join(f'    "{k}": {v},\n' for k, v in kvs) + "}\n"


def _p(*xs):
    """the lines print() writes for scalars"""
    return "".join(f"{x}\n" for x in xs)


MORE = [
    # ------------------------------------------------------------------------------------------------ while loops
    ("while-both-operands-change", ("C07", "C06"), """\
i := 0
n := 3
while i < n {
    i += 1
    n -= 1
}
print(i)
print(n)
""", _p(2, 1), "0", ""),
    ("while-boolean-operators", ("C07", "C08"), """\
xs := [4, 8, 15, 16]
i := 0
found := false
while i < 4 && found == false {
    if xs[i] % 2 == 1 {
        found = true
    }
    i += 1
}
print(i)
print(found)
""", _p(3, "true"), "0", ""),
    ("while-index-condition", ("C07", "C11"), """\
xs := [3, 1, 0, 5]
i := 0
while xs[i] != 0 {
    i += 1
}
print(i)
flags := [true, true, false]
j := 0
while flags[j] {
    flags[j] = false
    j += 1
}
print(j)
print(flags[0])
""", _p(2, 2, "false"), "0", ""),
    ("while-or-evaluates-both-operands", ("C07", "C16", "C14"), """\
calls := 0
fn check(v) {
    calls += 1
    return v
}
n := 0
while check(n < 2) || check(false) {
    n += 1
}
print(n)
print(calls)
""", _p(2, 6), "0", ""),
    ("while-walks-off-the-end", ("C07", "C11", "C17"), """\
xs := [1, 2, 3]
i := 0
while xs[i] > 0 {
    print(xs[i])
    i += 1
}
print("not reached")
""", _p(1, 2, 3), "103", "t.sd:3:7: index '3' is outside the list bounds"),
    ("while-condition-becomes-non-bool", ("C07", "C16", "C18"), """\
state := true
n := 0
while state {
    n += 1
    print(n)
    if n == 2 {
        state = 0
    }
}
print("not reached")
""", _p(1, 2), "103", "t.sd:3:7: condition must be 'bool', got 'int'"),
    ("while-jumps-through-branches-and-block", ("C07",), """\
i := 0
while true {
    i += 1
    if i < 3 {
        continue
    } else if i == 5 {
        {
            break
        }
    } else {
        print(i)
    }
    print("tail")
}
print(i)
""", _p(3, "tail", 4, "tail", 5), "0", ""),
    ("one-line-bodies", ("C07", "C09"), """\
n := 0
while n < 3 { n += 1; }
print(n)
for c in "ab" { print(c[1]); }
if n == 3 { print("three"); } else { print("other"); }
""", _p(3, "a", "b", "three"), "0", ""),
    ("while-false-at-once", ("C07", "C14"), """\
calls := 0
fn ready() {
    calls += 1
    return false
}
while ready() {
    print("body")
}
print(calls)
""", _p(1), "0", ""),
    ("while-empty-body", ("C07", "C09"), """\
n := 0
fn step() {
    n += 1
    return n < 4
}
while step() {
}
print(n)
while step() {
    # nothing to do
}
print(n)
""", _p(4, 5), "0", ""),
    ("while-continue-after-update", ("C07", "C06"), """\
i := 0
odd := 0
while i < 7 {
    i += 1
    if i % 2 == 0 {
        continue
    }
    odd += i
}
print(odd)
print(i)
""", _p(16, 7), "0", ""),
    ("while-compares-int-with-text", ("C07", "C16", "C18"), """\
limit := "3"
i := 0
print("start")
while i < limit {
    i += 1
}
print("not reached")
""", _p("start"), "103", "t.sd:4:9: can't apply '<' to 'int' and 'string'"),
    ("while-interpolated-condition-with-brackets", ("C07", "C15"), """\
s := "x"
n := 0
while $"<${s}>" != "<xxx>" {
    s += "x"
    n += 1
}
print(n)
print(s)
""", _p(2, "xxx"), "0", ""),
    # ------------------------------------------------------------------------------------------------ for loops
    ("for-break-first-middle-last", ("C07",), """\
fn upto(stop) {
    for [i, v] in ["a", "b", "c"] {
        if i == stop {
            break
        }
        print(v)
    }
    print(stop)
}
upto(0)
upto(1)
upto(2)
upto(3)
""", _p(0, "a", 1, "a", "b", 2, "a", "b", "c", 3), "0", ""),
    ("for-continue-first-and-last", ("C07", "C15"), """\
out := ""
for [i, c] in "abcd" {
    if i == 0 {
        continue
    }
    if i == 3 {
        continue
    }
    out += c
}
print(out)
""", _p("bc"), "0", ""),
    ("for-return-at-each-position", ("C07", "C14"), """\
fn find(xs, want) {
    for [i, x] in xs {
        if x == want {
            return i
        }
    }
    return -1
}
print(find([5, 6, 7], 5))
print(find([5, 6, 7], 6))
print(find([5, 6, 7], 7))
print(find([5, 6, 7], 8))
print(find([], 8))
""", _p(0, 1, 2, -1, -1), "0", ""),
    ("for-object-in-key-order-with-break", ("C07", "C12"), """\
o := {"b": 2, "c": 3, "a": 1}
for [k, v] in o {
    if k == "c" {
        break
    }
    print(k)
    print(v)
}
""", _p("a", 1, "b", 2), "0", ""),
    ("for-over-ranges", ("C07", "C06"), """\
total := 0
for [_, n] in 1 .. 5 {
    total += n
}
print(total)
for [i, n] in 3 .. 5 {
    print(i)
    print(n)
}
for p in 2 .. 2 {
    print("never")
}
""", _p(10, 0, 3, 1, 4), "0", ""),
    ("for-list-snapshot", ("C07", "C05"), """\
xs := [1, 2, 3]
for [i, x] in xs {
    if i == 0 {
        xs[1] = 20
        xs[2] = 30
        xs += [40]
    }
    print(x)
}
print(xs)
""", _p(1, 2, 3) + _l(1, 20, 30, 40), "0", ""),
    ("for-object-snapshot", ("C07", "C12"), """\
o := {"a": 1, "b": 2}
for [k, v] in o {
    o[k + k] = v * 10
    o.b = 99
    print(k)
    print(v)
}
print(o)
""", _p("a", 1, "b", 2) + _o(("a", 1), ("aa", 10), ("b", 99), ("bb", 20)), "0", ""),
    ("nested-for-inner-break", ("C07",), """\
for [_, a] in [1, 2, 3] {
    for [_, b] in [10, 20, 30] {
        if b == 20 {
            break
        }
        print(a + b)
    }
}
print("end")
""", _p(11, 12, 13, "end"), "0", ""),
    ("nested-for-inner-continue-outer-break", ("C07",), """\
for [_, a] in [1, 2, 3] {
    if a == 3 {
        break
    }
    for [_, b] in [1, 2, 3] {
        if b == a {
            continue
        }
        print(a * 10 + b)
    }
}
""", _p(12, 13, 21, 23), "0", ""),
    ("while-in-for-break-then-continue", ("C07", "C04"), """\
for [_, n] in [3, 1, 2] {
    k := 0
    while true {
        k += 1
        if k >= n {
            break
        }
    }
    if k == 1 {
        continue
    }
    print(k)
}
""", _p(3, 2), "0", ""),
    ("return-from-nested-loops", ("C07", "C14"), """\
fn first_pair(limit) {
    for [_, a] in 1 .. limit {
        for [_, b] in 1 .. limit {
            if a * b == 6 {
                return [a, b]
            }
        }
    }
    return null
}
print(first_pair(4))
print(first_pair(2))
""", _l(2, 3) + _p("<null>"), "0", ""),
    ("for-target-gone-after-loop", ("C20", "C04", "C07"), """\
for [i, v] in ["x"] {
    print(v)
}
print("after")
print(i)
""", _p("x", "after"), "103", "t.sd:5:7: 'i' is not defined"),
    ("for-inner-iterable-of-wrong-kind", ("C07", "C16", "C18"), """\
things := [[1], "ab", 7]
for [_, t] in things {
    for [_, e] in t {
        print(e)
    }
}
""", _p(1, "a", "b"), "103", "t.sd:3:19: 'for' iterator must be"),
    ("fn-declared-in-loop-body", ("C04", "C20", "C07"), """\
for [_, n] in [1, 2] {
    fn show() {
        print(n)
    }
    show()
}
i := 0
while i < 2 {
    t := i * 10
    i += 1
    print(t)
}
""", _p(1, 2, 0, 10), "0", ""),
    # ------------------------------------------------------------------------------------------------ if chains
    ("else-if-first-true-branch-only", ("C07",), """\
fn grade(n) {
    if n >= 90 {
        return "a"
    } else if n >= 50 {
        return "b"
    } else if n >= 50 {
        return "never"
    } else {
        return "c"
    }
}
print(grade(95))
print(grade(50))
print(grade(49))
""", _p("a", "b", "c"), "0", ""),
    ("else-if-conditions-as-far-as-needed", ("C07", "C14"), """\
log := ""
fn c(name, v) {
    log += name
    return v
}
if c("a", false) {
    print("A")
} else if c("b", true) {
    print("B")
} else if c("c", true) {
    print("C")
} else {
    print("D")
}
print(log)
""", _p("B", "ab"), "0", ""),
    ("else-if-bad-condition-only-when-reached", ("C07", "C16", "C18"), """\
x := 5
if x > 3 {
    print("big")
} else if x + "a" {
    print("never")
}
if x < 3 {
    print("small")
} else if x + "a" {
    print("never")
}
print("not reached")
""", _p("big"), "103", "t.sd:9:13: can't apply '+' to 'int' and 'string'"),
    ("empty-branches", ("C07", "C09"), """\
n := 2
if n == 1 {
} else if n == 2 {
    print("two")
} else {
}
if n == 2 {
} else {
    print("never")
}
if n == 3 {
}
print("end")
""", _p("two", "end"), "0", ""),
    ("list-is-not-a-condition", ("C07", "C16", "C18"), """\
xs := []
print("start")
if xs == [] {
    print("empty")
}
if xs {
    print("never")
}
""", _p("start", "empty"), "103", "t.sd:6:4: condition must be 'bool', got 'list'"),
    ("null-check-of-a-found-value", ("C10", "C16", "C18"), """\
fn lookup(k) {
    if k == "a" {
        return 1
    }
    return null
}
print("start")
r := lookup("b")
if r == null {
    print("none")
}
r = lookup("a")
if r == null {
    print("never")
}
""", _p("start", "none"), "103", "t.sd:13:6: can't apply '==' to 'int' and 'null'"),
    # ------------------------------------------------------------------------------------------------ early exits
    ("return-from-block-in-while", ("C07", "C14"), """\
fn f() {
    i := 0
    while true {
        i += 1
        {
            if i == 3 {
                return i * 10
            }
        }
    }
    return -1
}
print(f())
""", _p(30), "0", ""),
    ("running-off-the-end-gives-null", ("C07", "C14", "C19"), """\
fn b() {
    x := 1
}
fn c(flag) {
    if flag {
        return "yes"
    }
}
print(b())
print(c(true))
print(c(false))
r := print("x")
print(r)
""", _p("<null>", "yes", "<null>", "x", "<null>"), "0", ""),
    ("nothing-runs-after-return", ("C07",), """\
fn f() {
    print("one")
    return 2
    print("never")
}
print(f())
""", _p("one", 2), "0", ""),
    ("return-in-callee-leaves-callers-loop-alone", ("C07", "C14"), """\
fn has(xs, v) {
    for [_, x] in xs {
        if x == v {
            return true
        }
    }
    return false
}
for [_, n] in [1, 2, 3] {
    if has([2, 3], n) {
        print(n)
    }
}
""", _p(2, 3), "0", ""),
    ("break-does-not-cross-a-call", ("C07", "C17", "C18"), """\
fn stop() {
    break
}
for [_, n] in [1, 2] {
    print(n)
    stop()
}
print("not reached")
""", _p(1), "103", "t.sd:2:5: "),
    ("break-in-a-callback", ("C07", "C17", "C18"), """\
fn each(xs, f) {
    for [_, x] in xs {
        f(x)
    }
}
each([1, 2, 3], fn (x) {
    if x == 2 {
        break
    }
    print(x)
})
print("not reached")
""", _p(1), "103", "t.sd:8:9: "),
    ("continue-outside-a-loop", ("C07", "C17", "C18"), """\
print("start")
if true {
    continue
}
print("not reached")
""", _p("start"), "103", "t.sd:3:5: 'continue' can't be used outside of a loop"),
    ("return-at-top-level-in-a-loop", ("C07", "C17", "C18"), """\
for [_, n] in [1, 2] {
    print(n)
    if n == 2 {
        return n
    }
}
print("not reached")
""", _p(1, 2), "103", "t.sd:4:9: 'return' can't be used outside of a function"),
    # ------------------------------------------------------------------------------------------------ functions
    ("immediately-invoked", ("C14", "C08"), """\
r := fn (a, b) {
    return a * b
}(6, 7)
print(r)
print(fn () {
    return "now"
}())
""", _p(42, "now"), "0", ""),
    ("adder-factory", ("C04", "C14"), """\
fn adder(n) {
    return fn (x) {
        return x + n
    }
}
add2 := adder(2)
add10 := adder(10)
print(add2(1))
print(add10(1))
print(add2(1))
print(adder(5)(5))
""", _p(3, 11, 3, 10), "0", ""),
    ("functions-in-list-and-object", ("C14", "C08"), """\
ops := [
    fn (x) { return x + 1; },
    fn (x) { return x * 2; },
]
v := 5
for [_, op] in ops {
    v = op(v)
}
print(v)
table := {"neg": fn (x) { return 0 - x; }}
print(table.neg(v))
print(table["neg"](3))
print(ops[1](ops[0](1)))
""", _p(12, -12, -3, 4), "0", ""),
    ("map-with-callback", ("C14", "C05"), """\
fn map(xs, f) {
    out := []
    for [_, x] in xs {
        out += [f(x)]
    }
    return out
}
src := [1, 2, 3]
print(map(src, fn (n) {
    return n * n
}))
print(src)
""", _l(1, 4, 9) + _l(1, 2, 3), "0", ""),
    ("factorial", ("C14", "C06", "C07"), """\
fn fact(n) {
    if n <= 1 {
        return 1
    }
    return n * fact(n - 1)
}
print(fact(5))
print(fact(20))
print(fact(21))
""", _p(120, 2432902008176640000), "103", "t.sd:5:14: in 'fact': "),
    ("mutual-recursion", ("C14", "C04", "C20"), """\
fn is_even(n) {
    if n == 0 {
        return true
    }
    return is_odd(n - 1)
}
fn is_odd(n) {
    if n == 0 {
        return false
    }
    return is_even(n - 1)
}
print(is_even(10))
print(is_odd(7))
print(is_even(7))
""", _p("true", "true", "false"), "0", ""),
    ("partner-declared-too-late", ("C20", "C04", "C17"), """\
fn ping(n) {
    print(n)
    return pong(n)
}
print("start")
ping(1)
fn pong(n) {
    return n
}
""", _p("start", 1), "103", "t.sd:3:12: in 'ping': 'pong' is not defined\nStacktrace:\n  t.sd:6:1: in '<root>'"),
    ("accumulator-recursion", ("C14", "C06"), """\
fn sum_to(n, acc) {
    if n == 0 {
        return acc
    }
    return sum_to(n - 1, acc + n)
}
print(sum_to(10, 0))
print(sum_to(0, 7))
""", _p(55, 7), "0", ""),
    ("anonymous-recursion-through-its-variable", ("C04", "C14"), """\
down := fn (n) {
    if n == 0 {
        return "done"
    }
    return down(n - 1)
}
print(down(3))
fib := null
fib = fn (n) {
    if n < 2 {
        return n
    }
    return fib(n - 1) + fib(n - 2)
}
print(fib(10))
""", _p("done", 55), "0", ""),
    ("optional-argument-by-rest", ("C13", "C14"), """\
fn greet(name, ..opt) {
    greeting := "hello"
    if opt != [] {
        [greeting] = opt
    }
    return greeting + " " + name
}
print(greet("ann"))
print(greet("bob", "hi"))
print(greet("cy", "yo", "extra"))
""", _p("hello ann", "hi bob"), "103", "t.sd:4:9: in 'greet': cannot bind 2 item(s) to 1 variable name(s)\nStacktrace:\n  t.sd:10:7: in '<root>'"),
    ("rest-needs-the-fixed-ones", ("C13", "C14", "C17"), """\
fn log(level, ..parts) {
    print(level)
    print(parts)
}
log("info")
log("warn", 1, 2)
log()
""", _p("info") + _l() + _p("warn") + _l(1, 2), "103", "t.sd:7:1: expected at least 1 arguments, got 0"),
    ("arguments-left-to-right-once", ("C14",), """\
log := []
fn note(v) {
    log += [v]
    return v
}
fn three(a, b, c) {
    return a * 100 + b * 10 + c
}
print(three(note(1), note(2), note(3)))
print(log)
""", _p(123) + _l(1, 2, 3), "0", ""),
    ("arguments-evaluated-before-the-count-check", ("C14", "C17", "C18"), """\
fn one(a) {
    return a
}
fn note(v) {
    print(v)
    return v
}
print("start")
one(note(1), note(2))
print("not reached")
""", _p("start", 1, 2), "103", "t.sd:9:1: expected 1 arguments, got 2"),
    ("too-few-arguments-inside-a-function", ("C14", "C17", "C18"), """\
fn area(w, h) {
    return w * h
}
fn square(s) {
    return area(s)
}
print("start")
print(square(3))
""", _p("start"), "103", "t.sd:5:12: in 'square': expected 2 arguments, got 1\nStacktrace:\n  t.sd:8:7: in '<root>'"),
    ("parameters-are-fresh-variables", ("C14", "C05"), """\
fn change(n, xs) {
    n = n + 1
    xs[0] = n
    xs = [0]
    return n
}
a := 1
ys := [9]
print(change(a, ys))
print(a)
print(ys)
""", _p(2, 1) + _l(2), "0", ""),
    ("handler-that-is-not-a-function", ("C16", "C14", "C18"), """\
handlers := [fn () { return "ok"; }, "oops"]
for [_, h] in handlers {
    print(h())
}
""", _p("ok"), "103", "t.sd:3:11: can't call 'string' as a function"),
    ("calling-a-missing-result", ("C16", "C07", "C18"), """\
fn get(name) {
    if name == "a" {
        return fn () { return 1; }
    }
}
print(get("a")())
print(get("b")())
""", _p(1), "103", "t.sd:7:7: can't call 'null' as a function"),
    ("compose", ("C14", "C04"), """\
fn compose(f, g) {
    return fn (x) {
        return f(g(x))
    }
}
inc := fn (x) { return x + 1; }
dbl := fn (x) { return x * 2; }
print(compose(inc, dbl)(5))
print(compose(dbl, inc)(5))
""", _p(11, 12), "0", ""),
    ("wrong-count-through-spread", ("C13", "C14", "C18"), """\
fn pair(a, b) {
    return [a, b]
}
args := [1, 2]
print(pair(args..))
args += [3]
print(pair(args..))
""", _l(1, 2), "103", "t.sd:7:7: expected 2 arguments, got 3"),
    ("callback-called-with-wrong-count", ("C14", "C17", "C18"), """\
fn each(xs, f) {
    for [i, x] in xs {
        f(i, x)
    }
}
each(["a"], fn (i, x) {
    print(x)
})
each(["b"], fn (x) {
    print(x)
})
""", _p("a"), "103", "t.sd:3:9: in 'each': expected 1 arguments, got 2\nStacktrace:\n  t.sd:9:1: in '<root>'"),
    # ------------------------------------------------------------------------------------------------ closures
    ("counters-are-independent", ("C04",), """\
fn counter() {
    n := 0
    return fn () {
        n += 1
        return n
    }
}
c1 := counter()
c2 := counter()
print(c1())
print(c1())
print(c2())
print(c1())
""", _p(1, 2, 1, 3), "0", ""),
    ("closures-made-in-for-keep-their-iteration", ("C04", "C07"), """\
fs := []
for [i, v] in ["a", "b", "c"] {
    fs += [fn () {
        return v
    }]
}
print(fs[0]())
print(fs[1]())
print(fs[2]())
print(fs[0]())
""", _p("a", "b", "c", "a"), "0", ""),
    ("closures-made-in-while-share-only-the-outer-counter", ("C04", "C07"), """\
fs := []
i := 0
while i < 3 {
    j := i
    fs += [fn () {
        return [i, j]
    }]
    i += 1
}
print(fs[0]())
print(fs[2]())
""", _l(3, 0) + _l(3, 2), "0", ""),
    ("two-closures-share-a-parameter", ("C04", "C14"), """\
fn account(balance) {
    return {
        "deposit": fn (n) {
            balance += n
        },
        "balance": fn () {
            return balance
        },
    }
}
a := account(10)
b := account(0)
a.deposit(5)
print(a.balance())
print(b.balance())
""", _p(15, 0), "0", ""),
    ("closure-reads-the-live-variable", ("C04",), """\
x := 1
fn get() {
    return x
}
x = 2
print(get())
{
    x := 3
    print(get())
    x = 4
    print(x)
}
print(get())
print(x)
""", _p(2, 2, 4, 2, 2), "0", ""),
    ("closure-outlives-its-block", ("C04", "C20"), """\
get := null
{
    secret := "s1"
    get = fn () {
        return secret
    }
    secret = "s2"
}
print(get())
print("after")
print(secret)
""", _p("s2", "after"), "103", "t.sd:11:7: 'secret' is not defined"),
    ("callee-cannot-see-callers-locals", ("C04", "C20", "C17"), """\
fn show() {
    return local
}
fn caller() {
    local := "mine"
    return show()
}
print("start")
print(caller())
""", _p("start"), "103", "t.sd:2:12: in 'show': 'local' is not defined\nStacktrace:\n  t.sd:6:12: in 'caller'\n  t.sd:9:7: in '<root>'"),
    ("each-call-has-fresh-locals", ("C04", "C14"), """\
fn make(tag) {
    items := []
    return fn (x) {
        items += [tag + x]
        return items
    }
}
p := make("p")
q := make("q")
p("1")
q("1")
print(p("2"))
print(q("3"))
""", _l("p1", "p2") + _l("q1", "q3"), "0", ""),
    # ------------------------------------------------------------------------------------------------ this
    ("method-call-forms", ("C14", "C12"), """\
o := {
    "n": 3,
    "get": fn () {
        return this.n
    },
}
print(o.get())
print(o["get"]())
key := "get"
print(o[key]())
o.n = 4
print(o.get())
""", _p(3, 3, 3, 4), "0", ""),
    ("method-keeps-its-object-when-stored-or-passed", ("C14",), """\
o := {"name": "o", "who": fn () {
    return this.name
}}
fn call(f) {
    return f()
}
m := o.who
fs := [o.who]
print(m())
print(fs[0]())
print(call(o.who))
print(call(m))
o.name = "renamed"
print(m())
""", _p("o", "o", "o", "o", "renamed"), "0", ""),
    ("one-function-two-objects", ("C14", "C12"), """\
fn bump() {
    this.n += 1
    return this.n
}
a := {"n": 0, bump}
b := {"n": 10, bump}
a.bump()
a.bump()
b.bump()
print(a.n)
print(b.n)
""", _p(2, 11), "0", ""),
    ("method-copied-to-another-object", ("C14",), """\
a := {"v": 1, "f": fn () {
    return this.v
}}
b := {"v": 2, "f": a.f}
g := b.f
print(a.f())
print(b.f())
print(g())
""", _p(1, 2, 2), "0", ""),
    ("plain-call-has-no-this", ("C14", "C17", "C20"), """\
fn who() {
    return this.name
}
o := {"name": "o", who}
print(o.who())
print(who())
""", _p("o"), "103", "t.sd:2:12: in 'who': 'this' is not defined\nStacktrace:\n  t.sd:6:7: in '<root>'"),
    ("callback-inside-a-method-uses-its-this", ("C14", "C04"), """\
fn each(xs, f) {
    for [_, x] in xs {
        f(x)
    }
}
o := {"total": 0, "add_all": fn (xs) {
    each(xs, fn (x) {
        this.total += x
    })
    return this.total
}}
print(o.add_all([1, 2, 3]))
print(o.total)
""", _p(6, 6), "0", ""),
    ("method-calls-method", ("C14",), """\
o := {
    "base": 10,
    "double": fn () {
        return this.base * 2
    },
    "quad": fn () {
        return this.double() * 2
    },
}
print(o.quad())
o.base = 1
print(o.quad())
""", _p(40, 4), "0", ""),
    ("missing-method", ("C12", "C17", "C18"), """\
o := {"a": fn () { return 1; }}
print(o.a())
print(o.b())
""", _p(1), "103", "t.sd:3:7: object doesn't contain property 'b'"),
    ("method-with-too-few-arguments", ("C14", "C12", "C18"), """\
o := {"set": fn (k, v) {
    this[k] = v
}}
o.set("a", 1)
print(o.a)
o.set("b")
""", _p(1), "103", "t.sd:6:1: expected 2 arguments, got 1"),
    ("failure-inside-a-method", ("C17", "C18", "C12"), """\
o := {"run": fn (x) {
    return x.missing
}}
print("start")
o.run({})
""", _p("start"), "103", "t.sd:2:12: in '<unnamed function>': object doesn't contain property 'missing'\nStacktrace:\n  t.sd:5:1: in '<root>'"),
    # ------------------------------------------------------------------------------------------------ scopes
    ("shadowing-in-block-loop-function", ("C04", "C20"), """\
x := "outer"
fn f() {
    x := "fn"
    return x
}
for [_, v] in [1] {
    x := "loop"
    print(x)
}
if true {
    x := "if"
    print(x)
}
print(f())
print(x)
""", _p("loop", "if", "fn", "outer"), "0", ""),
    ("assignment-goes-to-the-nearest-declaration", ("C04",), """\
n := 0
fn outer() {
    n := 10
    fn inner() {
        n += 1
    }
    inner()
    inner()
    return n
}
print(outer())
print(n)
""", _p(12, 0), "0", ""),
    ("redeclaration-cites-the-first", ("C20", "C18"), """\
total := 0
for [_, n] in [1, 2] {
    total += n
}
print(total)
total := 5
""", _p(3), "103", "t.sd:6:1: 'total' is already defined in the current scope at [1:1]"),
    ("redeclaring-a-parameter", ("C20", "C14", "C17"), """\
fn f(count) {
    print(count)
    count := 0
    return count
}
f(7)
""", _p(7), "103", "t.sd:3:5: in 'f': 'count' is already defined in the current scope at [1:6]"),
    ("redeclaring-a-function", ("C20", "C18"), """\
fn helper() {
    return 1
}
print(helper())
fn helper() {
    return 2
}
""", _p(1), "103", "t.sd:5:4: 'helper' is already defined in the current scope at [1:4]"),
    ("use-before-declaration-in-a-block", ("C20", "C04", "C18"), """\
print("start")
fn show() {
    print(later)
}
later := 1
show()
{
    print(inner)
    inner := 2
}
""", _p("start", 1), "103", "t.sd:8:11: 'inner' is not defined"),
    ("underscore-never-binds", ("C20", "C13"), """\
[_, b, _] := [1, 2, 3]
print(b)
for [_, _] in [5] {
    print("once")
}
fn f(_, _) {
    return "f"
}
print(f(1, 2))
print(_)
""", _p(2, "once", "f"), "103", "t.sd:10:7: '_' is not defined"),
    ("misspelt-assignment-target", ("C20", "C18"), """\
count := 0
for [_, n] in [1, 2] {
    count += n
    print(count)
    coutn = 0
}
""", _p(1), "103", "t.sd:5:5: 'coutn' is not defined"),
    ("declared-in-a-branch-only", ("C20", "C04", "C07"), """\
flag := true
if flag {
    msg := "yes"
    print(msg)
} else {
    msg := "no"
}
print("after")
print(msg)
""", _p("yes", "after"), "103", "t.sd:9:7: 'msg' is not defined"),
    # ------------------------------------------------------------------------------------------------ layout
    ("continuation-lines", ("C09", "C08"), """\
total := 1 +
    2
xs := [
    1,
    2,
]
fn add(a,
       b) {
    return a +
        b
}
print(add(
    total,
    xs[
        1]))
""", _p(5), "0", ""),
    ("trailing-comma-in-a-call", ("C09", "C14"), """\
fn add(a, b) {
    return a + b
}
print(add(
    1,
    2,
))
print([
    add(1,
        1),
])
""", _p(3) + _l(2), "0", ""),
    ("semicolons-and-newlines", ("C09",), """\
a := 1; b := 2;; c := 3
;
print(a + b + c); print("x");

if a == 1 { print("one"); } else { print("other"); };
""", _p(6, "x", "one"), "0", ""),
    ("comments-in-odd-places", ("C09",), """\
x := 1 # trailing
# whole line
y := x + # after an operator
    # between the operands
    2
xs := [ # after the bracket
    1, # after the comma
    # before the close
]
print(y) # end
print(xs)
#""", _p(3) + _l(1), "0", ""),
    ("break-after-dot-and-boolean-operators", ("C09", "C08"), """\
o := {"a": {"b": 5}}
print(o.
    a.
    b)
v := o.a.b ==
    5 &&
    true
print(v)
""", _p(5, "true"), "0", ""),
    ("error-on-a-continuation-line", ("C09", "C18", "C16"), """\
print("start")
total := 1 +
    2 +
    "three" +
    4
""", _p("start"), "103", "t.sd:3:7: can't apply '+' to 'int' and 'string'"),
    # ------------------------------------------------------------------------------------------------ diagnostics
    ("chain-fails-at-its-second-operator", ("C16", "C18", "C08"), """\
a := 1
b := 2
c := "3"
print(a + b)
print(a + b + c)
""", _p(3), "103", "t.sd:5:13: can't apply '+' to 'int' and 'string'"),
    ("chain-fails-at-its-first-operator", ("C16", "C18", "C08"), """\
a := 1
b := 2
c := "3"
print(c + c)
print(c + a + b)
""", _p(33), "103", "t.sd:5:9: can't apply '+' to 'string' and 'int'"),
    ("chain-fails-at-the-tighter-operator", ("C16", "C18", "C08"), """\
a := 1
b := 2
c := "3"
print(a + b * b)
print(a + b * c)
""", _p(5), "103", "t.sd:5:13: can't apply '*' to 'int' and 'string'"),
    ("undefined-name-in-a-loop-in-a-function", ("C20", "C17", "C18"), """\
fn total(xs) {
    sum := 0
    for [_, x] in xs {
        sum += x * rate
    }
    return sum
}
print("start")
print(total([]))
print(total([1]))
""", _p("start", 0), "103", "t.sd:4:20: in 'total': 'rate' is not defined\nStacktrace:\n  t.sd:10:7: in '<root>'"),
    ("string-index-one-too-far", ("C11", "C15", "C18"), """\
s := "abc"
i := 0
while i <= s->len() {
    print(s[i])
    i += 1
}
""", _p("a", "b", "c"), "103", "t.sd:4:11: index '3' is outside the string bounds"),
    ("counting-down-below-zero", ("C11", "C07", "C17"), """\
xs := [1, 2, 3]
i := 2
while true {
    print(xs[i])
    i -= 1
}
""", _p(3, 2, 1), "103", "t.sd:4:"),
    ("record-without-the-property", ("C12", "C07", "C18"), """\
people := [{"name": "a", "age": 1}, {"name": "b"}]
for [_, p] in people {
    print(p.name)
    print(p.age)
}
""", _p("a", 1, "b"), "103", "t.sd:4:11: object doesn't contain property 'age'"),
    ("stacktrace-of-nested-calls", ("C17", "C18"), """\
fn f(a) {
    return a + zz
}
fn g(x) {
    return f(x) + 1
}
print("start")
print(g(1))
""", _p("start"), "103", "Stacktrace:\n  t.sd:5:12: in 'g'\n  t.sd:8:7: in '<root>'\n"),
    ("stacktrace-of-recursion", ("C17", "C18", "C07"), """\
fn down(n) {
    if n == 0 {
        return nope
    }
    return down(n - 1)
}
print("start")
down(2)
""", _p("start"), "103", "t.sd:3:16: in 'down': 'nope' is not defined\nStacktrace:\n  t.sd:5:12: in 'down'\n  t.sd:5:12: in 'down'\n  t.sd:8:1: in '<root>'\n"),
    ("stacktrace-through-anonymous-functions", ("C17", "C18"), """\
run := fn (f) {
    return f()
}
print("start")
run(fn () {
    return missing
})
""", _p("start"), "103", "t.sd:6:12: in '<unnamed function>': 'missing' is not defined\nStacktrace:\n  t.sd:2:12: in '<unnamed function>'\n  t.sd:5:1: in '<root>'\n"),
    ("failing-argument-is-not-in-the-outer-call", ("C17", "C18", "C14"), """\
fn inner(x) {
    return x - "1"
}
fn outer(y) {
    return y + 1
}
print("start")
print(outer(inner(4)))
""", _p("start"), "103", "t.sd:2:14: in 'inner': can't apply '-' to 'int' and 'string'\nStacktrace:\n  t.sd:8:13: in '<root>'\n"),
    ("failure-after-returning-from-calls", ("C17", "C18"), """\
fn ok(n) {
    print(n)
    return n
}
fn sum() {
    return ok(1) + ok(2) + ok("3")
}
print(sum())
""", _p(1, 2, 3), "103", "t.sd:6:26: in 'sum': can't apply '+' to 'int' and 'string'\nStacktrace:\n  t.sd:8:7: in '<root>'\n"),
    ("assigning-through-a-missing-name-in-a-callback", ("C20", "C17", "C04"), """\
fn times(n, f) {
    for [_, i] in 0 .. n {
        f(i)
    }
}
times(2, fn (i) {
    print(i)
    seen += 1
})
""", _p(0), "103", "t.sd:8:5: in '<unnamed function>': 'seen' is not defined\nStacktrace:\n  t.sd:3:9: in 'times'\n  t.sd:6:1: in '<root>'\n"),
]
