"""streams.py — specialised input streams used by several properties."""
import itertools

BIN_OPS = ["+", "-", "*", "/", "%", "==", "!=", "<", "<=", ">", ">=", "&&", "||", "===", "!=="]
ASSIGN_OPS = ["+=", "-=", "*=", "/=", "%="]

ALIAS_SETUPS = [
    ("same-list", "a := [1, 2]\nb := a\n"),
    ("list-in-comparand", "a := [[]]\nb := [a]\n"),
    ("element", "a := [[1], 2]\nb := a[0]\n"),
    ("shared-child", "c := [1]\na := [c]\nb := [c]\n"),
    ("shared-child-deep", "c := [1]\na := [[c]]\nb := [c, c]\n"),
    ("nested-alias", "a := [[1], [2]]\nb := a\n"),
    ("copy", "a := [[1], [2]]\nb := [a..]\n"),
    ("parent-of", "b := [7]\na := [b, b]\n"),
    ("same-object", "a := {\"k\": [1]}\nb := a\n"),
    ("object-in-comparand", "b := {\"k\": 1}\na := {\"k\": b}\n"),
    ("object-shared-child", "c := {\"z\": 0}\na := {\"k\": c}\nb := {\"k\": c}\n"),
    ("object-holds-list", "b := [1]\na := {\"k\": b}\n"),
    ("list-holds-object", "b := {\"k\": 1}\na := [b]\n"),
    ("list-of-self-comparand", "b := [[1]]\na := [b, b[0]]\n"),
    ("strings", "a := \"xy\"\nb := a\n"),
    ("ints", "a := 3\nb := a\n"),
    ("func-in-list", "fn f() { return 1; }\na := [f]\nb := a\n"),
    ("closure-capture", "a := [1]\nfn f() { return a; }\nb := f()\n"),
]


def alias_shapes():
    """(tag, script) — every operator and binding form over every alias shape"""
    out = []
    for tag, setup in ALIAS_SETUPS:
        ops = []
        for op in BIN_OPS + [".."]:
            ops += [f"print(a {op} b)", f"print(b {op} a)", f"print(a {op} a)", f"print([a] {op} a)", f"print(a {op} [a])",
                    f"print(a[0] {op} a)", f"print(a {op} a[0])"]
        for op in ASSIGN_OPS:
            ops += [f"a {op} b", f"a {op} a", f"a[0] {op} a", f"a[0] {op} b", f"b[0] {op} a", f"a.k {op} a", f"a.k {op} b",
                    f"a[\"k\"] {op} a", f"b {op} a[0]"]
        ops += ["[a[0], a[1]] = a", "[a[1], a[0]] = a", "[b[0], x9] = a", "[a[0], ..r9] = a", "[x9, a[0]] = b", "{\"k\": a.k} = a",
                "{\"k\": a[\"k\"], ..r9} = a", "[[a[0]], b[0]] = [a, b]", "for [a[0], v] in a {\n    print(v)\n}",
                "fn h(p) { [p[0], a[0]] = a; return p; }\nprint(h(a))", "[a[0:1], x9] = [a, a]" if False else "x9 := a\n[x9[0], a[0]] = x9",
                "a[0] = a[0]", "a[0] = b", "b[0] = a[0]", "a[0:1] = a", "a[0:1] = b", "a[0:1] = a[0:1]", "a[:] = a", "b[:] = a",
                "print([a.., b..])", "print([a.., a..])", "print({a.., b..})", "print({\"x\": a, \"y\": a})", "[x, ..y] := a\nprint(y)",
                "[x, ..y] := a\ny[0] = a\nprint(a)" if False else "[x, ..y] := a\nprint(x)", "{k, ..r} := a\nprint(r)",
                "for [i, v] in a {\n    a[0] = v\n}", "for [i, v] in a {\n    a += [v]\n}", "for [i, v] in a {\n    print(v == a)\n}",
                "fn g(p, q) { p[0] = q; return p; }\nprint(g(a, b)[0] === b)", "print(a == b && b == a)", "print(a->type() + b->type())",
                "a.k = a.k", "a.k = b", "print($\"${a->type()}${b->type()}\")"]
        for op in ops:
            out.append((tag, setup + op + "\nprint(b)\n"))
    return out


I64 = 2 ** 63
INT_GRID_FULL = sorted(set([0, 1, -1, 2, -2, 3, -3, 7, 10, -10, 2**31 - 1, 2**31, -2**31, 2**31 + 1, -2**31 - 1, 2**32, -2**32, 2**32 - 1,
                            3037000499, 3037000500, -3037000499, -3037000500, 3037000498, 3037000501, 2**62, -2**62, 2**62 - 1,
                            2**63 - 1, 2**63 - 2, -2**63, -2**63 + 1, -2**63 + 2, 4611686018427387903, 6074000999, 1 << 40, -(1 << 40),
                            99, -99, 1000003, -1000003, 12345678901]))
INT_GRID_QUICK = [0, 1, -1, 2, -2, 3037000499, 3037000500, -3037000500, 2**31, 2**63 - 1, -2**63, -2**63 + 1]


def int_lit(n):
    """an expression denoting n (there is no literal for -2^63)"""
    if n >= 0:
        return str(n)
    if n == -I64:
        return "(0 - 9223372036854775807 - 1)"
    return f"(0 - {-n})" if n % 2 else f"-{-n}"


def utf8_alphabet():
    return ["a", "é", "€", "😀", "\\\\", "\\\"", "\\$", "\\n", "\\x41", "\\xe9", "\\xff", "{", "}", " "]
