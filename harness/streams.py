"""streams.py — specialised input streams used by several properties."""
import itertools

BIN_OPS = ["+", "-", "*", "/", "%", "==", "!=", "<", "<=", ">", ">=", "&&", "||", "===", "!=="]
ASSIGN_OPS = ["+=", "-=", "*=", "/=", "%="]

ALIAS_SETUPS = [
    ("same-list", "a := [1, 2]\nb := a\n"),
    ("list-in-comparand", "a := [[]]\nb := [a]\n"),
    ("element", "a := [[1], 2]\nb := a[0]\n"),
    ("shared-child", "c := [1]\na := [c]\nb := [c]\n"),
    ("shared-child-deep", "c := [1]\na := [[c]]\nb := [c, c]\n"),
    ("nested-alias", "a := [[1], [2]]\nb := a\n"),
    ("copy", "a := [[1], [2]]\nb := [a..]\n"),
    ("parent-of", "b := [7]\na := [b, b]\n"),
    ("same-object", "a := {\"k\": [1]}\nb := a\n"),
    ("object-in-comparand", "b := {\"k\": 1}\na := {\"k\": b}\n"),
    ("object-shared-child", "c := {\"z\": 0}\na := {\"k\": c}\nb := {\"k\": c}\n"),
    ("object-holds-list", "b := [1]\na := {\"k\": b}\n"),
    ("list-holds-object", "b := {\"k\": 1}\na := [b]\n"),
    ("list-of-self-comparand", "b := [[1]]\na := [b, b[0]]\n"),
    ("strings", "a := \"xy\"\nb := a\n"),
    ("ints", "a := 3\nb := a\n"),
    ("func-in-list", "fn f() { return 1; }\na := [f]\nb := a\n"),
    ("closure-capture", "a := [1]\nfn f() { return a; }\nb := f()\n"),
]


def alias_shapes():
    """(tag, script) — every operator and binding form over every alias shape"""
    out = []
    for tag, setup in ALIAS_SETUPS:
        ops = []
        for op in BIN_OPS + [".."]:
            ops += [f"print(a {op} b)", f"print(b {op} a)", f"print(a {op} a)", f"print([a] {op} a)", f"print(a {op} [a])",
                    f"print(a[0] {op} a)", f"print(a {op} a[0])"]
        for op in ASSIGN_OPS:
            ops += [f"a {op} b", f"a {op} a", f"a[0] {op} a", f"a[0] {op} b", f"b[0] {op} a", f"a.k {op} a", f"a.k {op} b",
                    f"a[\"k\"] {op} a", f"b {op} a[0]"]
        ops += ["[a[0], a[1]] = a", "[a[1], a[0]] = a", "[b[0], x9] = a", "[a[0], ..r9] = a", "[x9, a[0]] = b", "{\"k\": a.k} = a",
                "{\"k\": a[\"k\"], ..r9} = a", "[[a[0]], b[0]] = [a, b]", "for [a[0], v] in a {\n    print(v)\n}",
                "fn h(p) { [p[0], a[0]] = a; return p; }\nprint(h(a))", "[a[0:1], x9] = [a, a]" if False else "x9 := a\n[x9[0], a[0]] = x9",
                "a[0] = a[0]", "a[0] = b", "b[0] = a[0]", "a[0:1] = a", "a[0:1] = b", "a[0:1] = a[0:1]", "a[:] = a", "b[:] = a",
                "print([a.., b..])", "print([a.., a..])", "print({a.., b..})", "print({\"x\": a, \"y\": a})", "[x, ..y] := a\nprint(y)",
                "[x, ..y] := a\ny[0] = a\nprint(a)" if False else "[x, ..y] := a\nprint(x)", "{k, ..r} := a\nprint(r)",
                "for [i, v] in a {\n    a[0] = v\n}", "for [i, v] in a {\n    a += [v]\n}", "for [i, v] in a {\n    print(v == a)\n}",
                "fn g(p, q) { p[0] = q; return p; }\nprint(g(a, b)[0] === b)", "print(a == b && b == a)", "print(a->type() + b->type())",
                "a.k = a.k", "a.k = b", "print($\"${a->type()}${b->type()}\")"]
        for op in ops:
            out.append((tag, setup + op + "\nprint(b)\n"))
    return out


I64 = 2 ** 63
INT_GRID_FULL = sorted(set([0, 1, -1, 2, -2, 3, -3, 7, 10, -10, 2**31 - 1, 2**31, -2**31, 2**31 + 1, -2**31 - 1, 2**32, -2**32, 2**32 - 1,
                            3037000499, 3037000500, -3037000499, -3037000500, 3037000498, 3037000501, 2**62, -2**62, 2**62 - 1,
                            2**63 - 1, 2**63 - 2, -2**63, -2**63 + 1, -2**63 + 2, 4611686018427387903, 6074000999, 1 << 40, -(1 << 40),
                            99, -99, 1000003, -1000003, 12345678901]))
INT_GRID_QUICK = [0, 1, -1, 2, -2, 3037000499, 3037000500, -3037000500, 2**31, 2**63 - 1, -2**63, -2**63 + 1]


def int_lit(n):
    """an expression denoting n (there is no literal for -2^63)"""
    if n >= 0:
        return str(n)
    if n == -I64:
        return "(0 - 9223372036854775807 - 1)"
    return f"(0 - {-n})" if n % 2 else f"-{-n}"


def utf8_alphabet():
    return ["a", "é", "€", "😀", "\\\\", "\\\"", "\\$", "\\n", "\\x41", "\\xe9", "\\xff", "{", "}", " "]


# ---------------------------------------------------------------------------- text that looks like a slot / a number
LOOKALIKE = ["\\${x}", "${x}", "${y}", "\\${y}", "{x}", "a", "${x}${y}"]
LOOKALIKE_DEC = {"\\${x}": "${x}", "${x}": "1", "${y}": "${x}", "\\${y}": "${y}", "{x}": "{x}", "a": "a", "${x}${y}": "1${x}"}
LOOKALIKE_PRE = 'x := "1"\ny := "\\${x}"\n'


def lookalike_literals(maxk):
    """(literal body, decoded value) for every sequence of <= maxk pieces that has at least one real slot"""
    import itertools
    out = []
    for k in range(1, maxk + 1):
        for ps in itertools.product(LOOKALIKE, repeat=k):
            lit = "".join(ps)
            if "${" not in lit.replace("\\${", ""):
                continue
            out.append((lit, "".join(LOOKALIKE_DEC[q] for q in ps)))
    return out


def lookalike_pair_scripts(rng, n):
    """two (or three) different interpolated literals evaluated in ONE run, in both orders, again in a loop and through a
    function: literals whose decoded text is equal while their slots differ (an escaped `\\${x}` vs a real `${x}`) are
    different literals.  -> [(source, expected stdout)]"""
    lits = lookalike_literals(2)
    by_shape = {}
    for lit, val in lits:
        by_shape.setdefault(lit.replace("\\${", "${"), []).append((lit, val))
    groups = [g for g in by_shape.values() if len(g) >= 2]
    out = []
    pairs = [(a, b) for g in groups for a in g for b in g if a != b]
    rng.shuffle(pairs)
    extra = [(rng.choice(lits), rng.choice(lits)) for _ in range(n)]
    for (l1, v1), (l2, v2) in pairs[:n] + extra[:max(0, n - len(pairs))]:
        out.append((LOOKALIKE_PRE + f'print($"{l1}")\nprint($"{l2}")\nprint($"{l1}")\nfor i in 0 .. 2 {{\n    print($"{l2}" + $"{l1}")\n}}\n'
                    f'fn f() {{\n    return $"{l1}"\n}}\nfn g() {{\n    return $"{l2}"\n}}\nprint(g() + f() + g())\n',
                    f"{v1}\n{v2}\n{v1}\n{v2}{v1}\n{v2}{v1}\n{v2}{v1}{v2}\n"))
    return out


NUM_HEADS = ["0", "1", "7", "00", "10", "1_0", "9223372036854775807", "9223372036854775808", "0x", "0X", "0b", "0o", "0e", "1e", "0x1", "0b1", "0xg",
             "0b2", "1.", "1.5", ".5", "0_", "_0", "1__2", "0x_", "1f", "0b_1", "0xFF", "1E5", "08", "0d"]
NUM_TAILS = ["", "x", "b", "_", "e", "e5", ".", ".0", "g", "0", " 1", "(", "[0]", "->type()", "..2", "+1", "-1", "--1", "x1"]


def number_like_sources():
    """text that begins like a number, as a statement, an operand, an argument, and INSIDE an interpolation slot (lexed only when
    evaluated): whatever it is — a number, two tokens, an error — the run completes or reports a diagnostic"""
    out = []
    for h in NUM_HEADS:
        for t in NUM_TAILS:
            txt = h + t
            out.append(f'print("a")\nv := {txt}\nprint("b")\n')
            out.append(f'print("a")\nprint($"n: ${{{txt}}}")\nprint("b")\n')
            out.append(f'print("a")\nprint($"${{ $"${{{txt}}}" }}")\n')
            out.append(f'xs := [1, 2]\nprint(xs[{txt}])\n')
    return list(dict.fromkeys(out))
