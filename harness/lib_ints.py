"""lib_ints.py — shared by C06 / C16 / C10: exact integer reference, script builders, spec trailers.

Every generated script ends with a comment line `# <PID> <json spec>`; the spec says what the script was built from, so
that `oracle_one` (used by --replay) can rebuild the script, check it is the script it claims to be, and recompute the
expectation with the model-free reference.  A trailing comment shifts no position and runs nothing.
"""
import json
import re
import streams

I64 = 2 ** 63
MAX = I64 - 1
MIN = -I64
ARITH = ["+", "-", "*", "/", "%"]
CMP = ["<", "<=", ">", ">=", "==", "!="]
FORMS = ["plain", "var", "elem", "prop", "assign", "shadow-param", "shadow-block", "compact", "compact-var"]


def in_i64(n):
    return MIN <= n <= MAX


def exact(a, op, b):
    """the mathematically exact result (Python big integers); None when it does not exist in 64 bits
    (`/` truncates toward zero, `%` is the remainder of that division, so it has the dividend's sign)"""
    if op == "+":
        r = a + b
    elif op == "-":
        r = a - b
    elif op == "*":
        r = a * b
    else:
        if b == 0:
            return None
        q = abs(a) // abs(b)
        if (a < 0) != (b < 0):
            q = -q
        r = q if op == "/" else a - q * b
    return r if in_i64(r) else None


def compare(a, op, b):
    return {"<": a < b, "<=": a <= b, ">": a > b, ">=": a >= b, "==": a == b, "!=": a != b}[op]


def lit(n):
    return streams.int_lit(n)


def op_lines(a, op, b, form):
    """statements computing `a op b` in the given form and printing the result (targets x, xs, o are pre-declared)"""
    A, B = lit(a), lit(b)
    if form == "plain":
        return [f"print({A} {op} {B})"]
    if form == "var":
        return [f"x = {A}", f"x {op}= {B}", "print(x)"]
    if form == "assign":
        return [f"x = {A}", f"x = x {op} {B}", "print(x)"]
    if form == "elem":
        return [f"xs[0] = {A}", f"xs[0] {op}= {B}", "print(xs[0])"]
    if form == "prop":
        return [f"o.k = {A}", f"o.k {op}= {B}", "print(o.k)"]
    if form == "compact":
        # no blank anywhere: `x--5` is `x - (-5)`, `xs[0]*-3` is `xs[0] * (-3)` — operators are single tokens and a `-` in front
        # of a literal where an operand can start is its sign
        return [f"xs[0] = {A}", f"print(xs[0]{op}{B})"]
    if form == "compact-var":
        return [f"x = {A}", f"print(x{op}{B})"]
    if form == "shadow-param":
        # the target is a parameter with the name of an outer variable: the update stays in the parameter
        return ["x = 77", "{", "    fn sp(x) {", f"        x {op}= {B}", "        print(x)", "        return 0", "    }", f"    sp({A})", "}",
                "if x != 77 {", '    print("the outer variable changed")', "}"]
    if form == "shadow-block":
        return ["x = 77", "{", f"    x := {A}", f"    x {op}= {B}", "    print(x)", "}",
                "if x != 77 {", '    print("the outer variable changed")', "}"]
    raise ValueError(form)


PRELUDE = 'x := 0\nxs := [0]\no := {"k": 0}\n'


def trailer(pid, spec):
    return f"# {pid} " + json.dumps(spec, separators=(",", ":")) + "\n"


def spec_of(pid, src):
    m = re.search(r"^# " + pid + r" (\{.*\})\n?\Z", src, re.M)
    return json.loads(m.group(1)) if m else None


def ints_in(text):
    return [int(t) for t in re.findall(r"-?\d+", text)]


def sign(n):
    return 0 if n == 0 else (1 if n > 0 else -1)


def magnitude(n):
    """coarse size class of an operand"""
    n = abs(n)
    if n <= 2:
        return str(n)
    if n < 2 ** 31:
        return "s"
    if n <= 2 ** 32:
        return "m"
    if n < 3037000500:
        return "r-"
    if n < 2 ** 62:
        return "r+"
    if n < MAX - 2:
        return "L"
    return "X"


DIAG_HEAD = re.compile(r"\At\.sd:(\d+):(\d+): (.*)\n\Z", re.S)


def corpus_specs(pid, build):
    """the specs of the scripts stored in /verif/corpus/<pid>/ (they run first); a file that is not the script its trailer
    describes is skipped"""
    import core
    d = core.VERIF / "corpus" / pid
    out = []
    if d.is_dir():
        for fp in sorted(d.glob("*.sd")):
            src = fp.read_text()
            spec = spec_of(pid, src)
            if spec is not None and build(spec) == src:
                out.append(spec)
    return out
