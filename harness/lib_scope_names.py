"""lib_scope_names.py — name events and the reference scope machine (C20).

Events over the names a, b and `_`:

    D x  x := K                 A x  x = K                O x  x += 1             R x  print(x)
    L x  [x, _] := [K, 0]  /  {"k": x} := {"k": K}   (alternating)       F x  fn x() { return 0; }
    P x  fn g<i>(x) {  …  }  g<i>(K)      (parameter, body run by a call)
    W x  for [_, x] in [K] {  …  }        (for target)
    (    fn g<i>() {  …  }  g<i>()        (body run by a call)
    C x  collect, declaring:  [..x] := []  /  [h<i>, ..x] := [K]  /  {..x} := {}  /  [..x] := [K]     (by position)
    S x  collect, assigning:  [..x] = []   /  [_, ..x] = [K]      /  {..x} = {}                       (by position)
    {    bare block        ?  `if true {`        !  `if false { … } else {` (else arm taken)
    %    `if false { … } else if true {`         @  `while w { w = false …` (one iteration)
    }    close the innermost open construct

The machine keeps a stack of scopes (name -> kind, value, position of the declaring identifier) and predicts stdout, and
for the first failing event the diagnostic: `not defined` at the name, or `already defined … at [line:col]` citing the
earlier declaration.  Only sequences whose proper prefixes are error-free are generated (what follows an error is never run).
"""

NAMES = ["a", "b", "_"]
TOKENS = [k + x for k in "DAORLCSFPW" for x in NAMES] + ["{", "?", "!", "%", "@", "(", "}"]


class Machine:
    def __init__(self):
        self.lines = []
        self.scopes = [{}]
        self.open = []            # (kind, call line or None, has body)
        self.out = []
        self.error = None         # (kind, name, line, col, prev position or None)
        self.n = 0
        self.used = set()
        self.infn = 0

    # ------------------------------------------------------------ helpers
    def ind(self):
        return "    " * len(self.open)

    def emit(self, text):
        self.lines.append(self.ind() + text)
        return len(self.lines)

    def lookup(self, x):
        for sc in reversed(self.scopes):
            if x in sc:
                return sc[x]
        return None

    def declare(self, x, kind, val, line, col):
        if x == "_":
            return True
        top = self.scopes[-1]
        if x in top:
            self.error = ("already", x, line, col, top[x]["pos"])
            return False
        top[x] = {"kind": kind, "val": val, "pos": (line, col)}
        return True

    def undefined(self, x, line, col):
        self.error = ("undefined", x, line, col, None)

    # ------------------------------------------------------------ events
    def event(self, t):
        """apply one token; returns False if the token is not applicable here (pruned)"""
        assert self.error is None
        i = self.n
        self.n += 1
        k = 100 + i
        base = 4 * len(self.open)
        if t == "}":
            if not self.open or not self.open[-1][2]:
                return False
            self.close()
            return True
        if self.open:
            self.open[-1][2] = True
        if t in ("{", "?", "!", "%", "@"):
            if t == "{":
                self.emit("{")
            elif t == "?":
                self.emit("if true {")
            elif t == "!":
                self.emit("if false {")
                self.lines.append(self.ind() + "    print(0)")
                self.emit("} else {")
            elif t == "%":
                self.emit("if false {")
                self.lines.append(self.ind() + "    print(0)")
                self.emit("} else if true {")
            else:
                self.emit(f"wq{i} := true")
                self.emit(f"while wq{i} {{")
                self.lines.append(self.ind() + f"    wq{i} = false")
            self.open.append(["block", None, False])
            self.scopes.append({})
            return True
        if t == "(":
            self.emit(f"fn g{i}() {{")
            self.open.append(["fn", f"g{i}()", False])
            self.scopes.append({})
            self.infn += 1
            return True
        kind, x = t[0], t[1]
        if x == "b" and "a" not in self.used:
            return False
        self.used.add(x)
        if kind == "D":
            line = self.emit(f"{x} := {k}")
            self.declare(x, "int", k, line, base + 1)
        elif kind == "A":
            line = self.emit(f"{x} = {k}")
            if x != "_":
                c = self.lookup(x)
                if c is None:
                    self.undefined(x, line, base + 1)
                else:
                    c["kind"], c["val"] = "int", k
        elif kind == "O":
            line = self.emit(f"{x} += 1")
            if x != "_":
                c = self.lookup(x)
                if c is None:
                    self.undefined(x, line, base + 1)
                elif c["kind"] != "int":
                    self.error = ("optype", x, line, None, None)
                else:
                    c["val"] += 1
        elif kind == "R":
            line = self.emit(f"print({x})")
            c = None if x == "_" else self.lookup(x)
            if c is None:
                self.undefined(x, line, base + 7)
            else:
                self.out.append(str(c["val"]) if c["kind"] in ("int", "other") else f"<function 'Some(\"{x}\")'>")
        elif kind == "L":
            if i % 2 == 0:
                line = self.emit(f"[{x}, _] := [{k}, 0]")
                self.declare(x, "int", k, line, base + 2)
            else:
                line = self.emit(f"{{\"k\": {x}}} := {{\"k\": {k}}}")
                self.declare(x, "int", k, line, base + 7)
        elif kind == "C":
            form = i % 4
            if form == 0:
                line = self.emit(f"[..{x}] := []")
                self.declare(x, "other", "[\n]", line, base + 4)
            elif form == 1:
                line = self.emit(f"[h{i}, ..{x}] := [{k}]")
                self.declare(x, "other", "[\n]", line, base + len(f"[h{i}, ..") + 1)
            elif form == 2:
                line = self.emit(f"{{..{x}}} := {{}}")
                self.declare(x, "other", "{\n}", line, base + 4)
            else:
                line = self.emit(f"[..{x}] := [{k}]")
                self.declare(x, "other", f"[\n    {k},\n]", line, base + 4)
        elif kind == "S":
            form = i % 3
            if form == 0:
                line = self.emit(f"[..{x}] = []")
                val, col = "[\n]", base + 4
            elif form == 1:
                line = self.emit(f"[_, ..{x}] = [{k}]")
                val, col = "[\n]", base + 7
            else:
                line = self.emit(f"{{..{x}}} = {{}}")
                val, col = "{\n}", base + 4
            if x != "_":
                c = self.lookup(x)
                if c is None:
                    self.undefined(x, line, col)
                else:
                    c["kind"], c["val"] = "other", val
        elif kind == "F":
            line = self.emit(f"fn {x}() {{ return 0; }}")
            self.declare(x, "func", None, line, base + 4)
        elif kind == "P":
            line = self.emit(f"fn g{i}({x}) {{")
            self.open.append(["fn", f"g{i}({k})", False])
            self.scopes.append({})
            self.infn += 1
            self.declare(x, "int", k, line, base + len(f"fn g{i}(") + 1)
        elif kind == "W":
            line = self.emit(f"for [_, {x}] in [{k}] {{")
            self.open.append(["loop", None, False])
            self.scopes.append({})
            self.declare(x, "int", k, line, base + 9)
        return True

    def close(self):
        kind, call, _ = self.open.pop()
        self.scopes.pop()
        self.emit("}")
        if kind == "fn":
            self.infn -= 1
            self.emit(call)

    def finish(self):
        """close what is open (an empty body gets a neutral statement) and return the script"""
        while self.open:
            if not self.open[-1][2]:
                self.emit("print(0)")
                self.open[-1][2] = True
                if self.error is None:
                    self.out.append("0")
            self.close()
        return "\n".join(self.lines) + "\n"


def run_sequence(seq):
    """-> Machine after the whole sequence, or None if some token is not applicable or an error precedes the last token"""
    m = Machine()
    for j, t in enumerate(seq):
        if m.error is not None:
            return None
        if not m.event(t):
            return None
    return m


REDUCED = [k + "a" for k in "DAORLCSFPW"] + ["D_", "R_", "{", "?", "!", "%", "@", "(", "}"]


def sequences(maxlen, tokens=None):
    """depth first over error-free prefixes"""
    tokens = tokens or TOKENS

    def go(prefix):
        for t in tokens:
            seq = prefix + (t,)
            m = run_sequence(seq)
            if m is None:
                continue
            yield seq, m
            if len(seq) < maxlen and m.error is None:
                yield from go(seq)
    yield from go(())


def expectation(m):
    """(script, expected stdout, expected status, error)"""
    err = m.error
    # output printed by neutral fillers of still-open bodies only happens if no error occurred
    src = m.finish()
    return src, "".join(o + "\n" for o in m.out), ("0" if err is None else "103"), err


# ---------------------------------------------------------------------------- non-bindable targets
NONBINDABLE = [
    ("null", "null"), ("bool", "true"), ("bool", "false"), ("int", "1"), ("int", "-1"), ("str", "\"s\""),
    ("interpolated-str", "$\"s${q}\""), ("binary-op", "1 + 2"), ("comparison", "q == 1"), ("range", "0 .. 2"),
    ("fn-literal", "fn() { return 1; }"), ("call", "f()"), ("method-call", "\"s\"->len()"), ("type-prop", "q->type"),
    ("parenthesised-int", "(1)"), ("ref-eq", "qs === qs"),
]
BINDABLE = [("var", "v1"), ("index", "qs[0]"), ("prop", "qo.k"), ("index-prop", "qo[\"k\"]"), ("range-index", "qs[0:1]"),
            ("list-pattern", "[v1, v2]"), ("object-pattern", "{\"k\": v1}"), ("underscore", "_")]
PRE = "q := 1\nqs := [5]\nqo := {\"k\": 1}\nfn f() { return 1; }\nprint(\"before\")\n"


def positions(kind, t):
    """(position tag, script, 1-based (line, col) of the target) for every binding position.
    The right-hand sides have the shape the (valid) surrounding pattern needs."""
    rhs = {"range-index": "[7]", "list-pattern": "[1, 2]", "object-pattern": "{\"k\": 1}"}.get(kind, "9")
    L = PRE.count("\n") + 1
    out = [
        ("declaration", f"{t} := {rhs}\n", (L, 1)),
        ("assignment", f"{t} = {rhs}\n", (L, 1)),
        ("op-assignment", f"{t} += {rhs}\n", (L, 1)),
        ("for-target", f"for {t} in [{rhs}] {{\n    print(\"body\")\n}}\n", (L, 5)),
        ("for-target-nested", f"for [_, {t}] in [{rhs}] {{\n    print(\"body\")\n}}\n", (L, 9)),
        ("parameter", f"fn g({t}) {{\n    return 0\n}}\nprint(\"defined\")\ng({rhs})\n", (L, 6)),
        ("parameter-of-fn-literal", f"g := fn({t}) {{\n    return 0\n}}\nprint(\"defined\")\ng({rhs})\n", (L, 9)),
        ("second-parameter", f"fn g(p, {t}) {{\n    return 0\n}}\nprint(\"defined\")\ng(0, {rhs})\n", (L, 9)),
        ("in-list-pattern", f"[w1, {t}] := [0, {rhs}]\n", (L, 6)),
        ("in-list-pattern-first", f"[{t}, w1] := [{rhs}, 0]\n", (L, 2)),
        ("in-list-pattern-assign", f"[q, {t}] = [0, {rhs}]\n", (L, 5)),
        ("in-nested-list-pattern", f"[[{t}]] := [[{rhs}]]\n", (L, 3)),
        ("in-object-pattern", f"{{\"k\": {t}}} := {{\"k\": {rhs}}}\n", (L, 7)),
        ("in-object-pattern-assign", f"{{\"k\": {t}}} = {{\"k\": {rhs}}}\n", (L, 7)),
        ("in-parameter-pattern", f"fn g([{t}]) {{\n    return 0\n}}\nprint(\"defined\")\ng([{rhs}])\n", (L, 7)),
        ("collect-only-empty-source", f"[..{t}] := []\n", (L, 4)),
        ("collect-only-empty-source-assign", f"[..{t}] = []\n", (L, 4)),
        ("collect-only", f"[..{t}] := [{rhs}]\n", (L, 4)),
        ("collect-after-item", f"[w1, ..{t}] := [0]\n", (L, 8)),
        ("collect-nested-empty-source", f"[[..{t}]] := [[]]\n", (L, 5)),
        ("object-collect", f"{{..{t}}} := {{}}\n", (L, 4)),
    ]
    before = {"parameter-of-fn-literal": "before\ndefined\n"}
    return [(p, PRE + s + "print(\"after\")\n", pos, before.get(p, "before\n")) for p, s, pos in out]


# what can be bound: (tag, statements after PRE, expected stdout after "before")
CONTROLS = [
    ("declare-variable", "v1 := 9\nprint(v1)\n", "9\n"),
    ("assign-element", "qs[0] = 9\nprint(qs[0])\n", "9\n"),
    ("assign-property", "qo.k = 9\nprint(qo.k)\n", "9\n"),
    ("assign-index-property", "qo[\"k\"] = 9\nprint(qo.k)\n", "9\n"),
    ("assign-new-property", "qo.j = 9\nprint(qo.j)\n", "9\n"),
    ("assign-range", "qs[0:1] = [9]\nprint(qs[0])\n", "9\n"),
    ("op-assign-variable", "q += 1\nprint(q)\n", "2\n"),
    ("op-assign-element", "qs[0] += 1\nprint(qs[0])\n", "6\n"),
    ("op-assign-property", "qo.k += 1\nprint(qo.k)\n", "2\n"),
    ("declare-list-pattern", "[v1, v2] := [1, 2]\nprint(v1 + v2)\n", "3\n"),
    ("declare-nested-pattern", "[[v1], {\"k\": v2}] := [[1], {\"k\": 2}]\nprint(v1 + v2)\n", "3\n"),
    ("declare-collect", "[v1, ..v2] := [1, 2, 3]\nprint(v2[1])\n", "3\n"),
    ("declare-object-pattern", "{\"k\": v1} := {\"k\": 4}\nprint(v1)\n", "4\n"),
    ("declare-shorthand", "{k} := {\"k\": 4}\nprint(k)\n", "4\n"),
    ("assign-pattern-with-targets", "[qs[0], qo.k, q] = [7, 8, 9]\nprint(qs[0] + qo.k + q)\n", "24\n"),
    ("for-target-pattern", "for [i, e] in [3] {\n    print(i + e)\n}\n", "3\n"),
    ("for-target-variable", "for pr in [3] {\n    print(pr[1])\n}\n", "3\n"),
    ("parameter-pattern", "fn g([p1, p2], {\"k\": p3}) {\n    return p1 + p2 + p3\n}\nprint(g([1, 2], {\"k\": 3}))\n", "6\n"),
    ("underscore-everywhere", "_ := 1\n_ = 2\n_ += 3\n[_, _] := [1, 2]\n{_} := {\"z\": 1}\nfor _ in [1] {\n    print(\"b\")\n}\n"
                              "fn g(_, _) {\n    return 5\n}\nprint(g(1, 2))\nfn _() {\n    return 1\n}\nfn _() {\n    return 2\n}\n", "b\n5\n"),
    ("inner-redeclaration", "{\n    q := 2\n    print(q)\n}\nprint(q)\n", "2\n1\n"),
    ("redeclare-in-function", "fn g(q) {\n    qs := q\n    return qs\n}\nprint(g(4))\nprint(q)\n", "4\n1\n"),
    ("redeclare-per-iteration", "for [_, e] in [1, 2] {\n    w := e\n    print(w)\n}\n", "1\n2\n"),
]


def random_sequences(rng, count, lo=6, hi=10):
    """longer sequences by a random walk over error-free prefixes; the last token may fail"""
    out = []
    while len(out) < count:
        n = rng.randrange(lo, hi + 1)
        seq = ()
        m = Machine()
        tries = 0
        while len(seq) < n and tries < 100:
            tries += 1
            t = rng.choice(TOKENS)
            m2 = run_sequence(seq + (t,))
            if m2 is None:
                continue
            if m2.error is not None and len(seq) + 1 < n and rng.random() < 0.85:
                continue          # keep going most of the time: errors are wanted late
            seq, m = seq + (t,), m2
            if m.error is not None:
                break
        if seq:
            out.append((seq, m))
    return out


# ---------------------------------------------------------------------------- text -> tokens (replay)
import re as _re

_LINE = [
    (_re.compile(r"^(\w+) := \d+$"), "D"), (_re.compile(r"^(\w+) = \d+$"), "A"), (_re.compile(r"^(\w+) \+= 1$"), "O"),
    (_re.compile(r"^print\(([a-z_])\)$"), "R"), (_re.compile(r"^\[(\w+), _\] := \[\d+, 0\]$"), "L"),
    (_re.compile(r"^\{\"k\": (\w+)\} := \{\"k\": \d+\}$"), "L"), (_re.compile(r"^fn ([ab_])\(\) \{ return 0; \}$"), "F"),
    (_re.compile(r"^\[\.\.(\w+)\] := \[\d*\]$"), "C"), (_re.compile(r"^\[h\d+, \.\.(\w+)\] := \[\d+\]$"), "C"),
    (_re.compile(r"^\{\.\.(\w+)\} := \{\}$"), "C"), (_re.compile(r"^\[\.\.(\w+)\] = \[\]$"), "S"),
    (_re.compile(r"^\[_, \.\.(\w+)\] = \[\d+\]$"), "S"), (_re.compile(r"^\{\.\.(\w+)\} = \{\}$"), "S"),
    (_re.compile(r"^fn g\d+\((\w+)\) \{$"), "P"), (_re.compile(r"^for \[_, (\w+)\] in \[\d+\] \{$"), "W"),
]


def tokens_of(src):
    toks = []
    for l in src.split("\n"):
        l = l.strip()
        if not l or l == "print(0)" or _re.match(r"^g\d+\(\d*\)$", l) or l == "if false {" or \
                _re.match(r"^wq\d+ (:= true|= false)$", l):
            continue
        if l == "{":
            toks.append("{")
        elif l == "if true {":
            toks.append("?")
        elif l == "} else {":
            toks.append("!")
        elif l == "} else if true {":
            toks.append("%")
        elif _re.match(r"^while wq\d+ \{$", l):
            toks.append("@")
        elif l == "}":
            toks.append("}")
        elif _re.match(r"^fn g\d+\(\) \{$", l):
            toks.append("(")
        else:
            for p, k in _LINE:
                m = p.match(l)
                if m:
                    toks.append(k + m.group(1))
                    break
            else:
                return None
    while toks and toks[-1] == "}":
        toks.pop()
    m = run_sequence(tuple(toks))
    if m is None:
        return None
    e = expectation(m)
    return e if e[0] == src else None
