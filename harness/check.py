#!/usr/bin/env python3
"""check.py — entry point of every registered check.

    ./check <id> [--tier quick|thorough] [--replay PATH]

Five steps, all from /repo's current working tree (DESIGN.md §2):
  0 build    cargo build with --cfg seed_verif; tools/extract.py -> Generated.lean
  A prove    lake build SeedProofs.<id>; `#print axioms` audit; forbidden-construct grep
  B tie      model driver vs implementation on the property's input streams
  C oracle   the property's model-free oracle on the implementation's own outputs
  E evidence /verif/evidence/<id>.json

Exit 0 if the property held on everything explored, else 1 with
`VIOLATION property=<id> replay=<path>[ no-failing-input-found]` lines.
"""
import argparse
import importlib
import json
import os
import random
import re
import shutil
import subprocess
import sys
import time
import traceback
from pathlib import Path

sys.path.insert(0, str(Path(__file__).resolve().parent))
import core  # noqa: E402

VERIF = core.VERIF
ALLOWED_AXIOMS = {"propext", "Classical.choice", "Quot.sound"}
FORBIDDEN = re.compile(r"\b(sorry|admit|native_decide|bv_decide|implemented_by|unsafe)\b|^\s*axiom\s|maxHeartbeats\s+0")


class Ctx:
    def __init__(self, pid, tier, seed):
        self.pid = pid
        self.tier = tier
        self.seed = seed
        self.rng = random.Random(seed)
        self.t0 = time.time()
        self.violations = []        # (replay_path, found_input: bool)
        self.known_hits = []
        self.cov = {
            "evaluations": 0, "distinct_nontrivial": 0, "rule": "", "samples": [],
            "traces_validated_against_impl": 0, "model_impl_disagreements": 0, "oracle_failures": 0,
            "cli_reconfirmed": 0, "streams": {}, "distribution": {}, "excluded": {},
        }
        self.assumptions = []
        self.tables = None
        self.proof = {"obligations": 0, "discharged": 0, "theorems": [], "axioms": {}, "broken": []}
        self.known = load_known()
        self._replay_n = 0
        self._nontrivial = set()

    # ------------------------------------------------------------------ bookkeeping
    def count(self, stream, n):
        self.cov["evaluations"] += n
        self.cov["streams"][stream] = self.cov["streams"].get(stream, 0) + n

    def nontrivial(self, key):
        self._nontrivial.add(key)

    def dist(self, key, n=1):
        d = self.cov["distribution"]
        d[key] = d.get(key, 0) + n

    def sample(self, s):
        if len(self.cov["samples"]) < 8:
            self.cov["samples"].append(s)

    def exclude(self, key, n=1):
        d = self.cov["excluded"]
        d[key] = d.get(key, 0) + n

    # ------------------------------------------------------------------ reporting
    def replay_dir(self):
        self._replay_n += 1
        if self._replay_n == 1:
            # replays of an earlier run with the same tier and seed would otherwise linger next to the new ones
            for old in (VERIF / "replays" / self.pid).glob(f"{self.tier}-{self.seed}-*"):
                shutil.rmtree(old, ignore_errors=True)
        d = VERIF / "replays" / self.pid / f"{self.tier}-{self.seed}-{self._replay_n}"
        if d.exists():
            shutil.rmtree(d)
        d.mkdir(parents=True)
        return d

    def match_known(self, kind_info):
        """kind_info: dict with 'input' (str) and optional fields; returns the matching known finding or None"""
        import findings
        for f in self.known:
            if f.get("status") != "known" or (f.get("property") != self.pid and self.pid not in f.get("also", [])):
                continue
            pred = findings.SIGNATURES.get(f.get("signature"))
            if pred and pred(kind_info):
                return f
        return None

    def violation(self, what, input_text=None, details=None, leg="C"):
        """a concrete failing input (leg C, or a CLI-confirmed disagreement that contradicts the statement)"""
        info = {"input": input_text or "", "what": what, "details": details or {}}
        k = self.match_known(info)
        if k is not None:
            if k["id"] not in [h["id"] for h in self.known_hits]:
                self.known_hits.append(k)
            return
        d = self.replay_dir()
        if input_text is not None:
            (d / "input.sd").write_bytes(input_text.encode("utf-8", errors="surrogateescape"))
        (d / "replay.json").write_text(json.dumps({
            "property": self.pid, "leg": leg, "what": what, "details": details or {},
            "seed": self.seed, "tier": self.tier,
            "how_to_replay": f"{core.SEED_BIN} input.sd   (built from /repo with --cfg seed_verif; hooks inert on this path)",
        }, indent=1, default=str))
        self.violations.append((str(d), True))
        self.cov["oracle_failures"] += 1

    def unproved(self, name, why, details=None):
        """a proof obligation or a correspondence that no longer checks, with no failing input found"""
        self._unproved_count = getattr(self, "_unproved_count", {})
        self._unproved_count[name] = self._unproved_count.get(name, 0) + 1
        if self._unproved_count[name] > 5:
            self.cov.setdefault("further_reports_of_the_same_obligation", {})[name] = self._unproved_count[name] - 5
            return
        d = self.replay_dir()
        (d / "replay.json").write_text(json.dumps({
            "property": self.pid, "no_longer_checks": name, "why": why, "details": details or {},
            "seed": self.seed, "tier": self.tier,
        }, indent=1, default=str))
        self.violations.append((str(d), False))


def load_known():
    p = VERIF / "known_findings.json"
    if not p.exists():
        return []
    return json.loads(p.read_text()).get("findings", [])


# ---------------------------------------------------------------------------- leg A
def proof_modules(pid):
    """the property file and, if present, its extension `SeedProofs/<pid>x.lean`: property theorems that are proved ON TOP of
    the property file (in lemma files that import it) are listed there, so that the property file need not import them"""
    mods = [f"SeedProofs.{pid}"]
    if (core.LEAN_DIR / "SeedProofs" / f"{pid}x.lean").exists():
        mods.append(f"SeedProofs.{pid}x")
    return mods


def theorem_names(pid):
    out = []
    for mod in proof_modules(pid):
        out += theorem_names_of(core.LEAN_DIR / (mod.replace(".", "/") + ".lean"))
    return out


def theorem_names_of(fp):
    if not fp.exists():
        return []
    names = []
    ns = []
    for line in fp.read_text().split("\n"):
        m = re.match(r"^namespace\s+(\S+)", line)
        if m:
            ns.append(m.group(1))
        m = re.match(r"^end\s+(\S+)", line)
        if m and ns and ns[-1] == m.group(1):
            ns.pop()
        m = re.match(r"^(?:@\[[^\]]*\]\s*)?theorem\s+(\S+)", line)
        if m:
            names.append(".".join(ns + [m.group(1)]))
        # property theorems proved in an imported file are listed with `-- audit: Full.Name Other.Name`
        m = re.match(r"^--\s*audit:\s*(.+)$", line)
        if m:
            names.extend(m.group(1).split())
    return names


def strip_lean_comments(text):
    text = re.sub(r"/-.*?-/", "", text, flags=re.S)
    return "\n".join(l.split("--")[0] for l in text.split("\n"))


def leg_a(ctx):
    pid = ctx.pid
    t0 = time.time()
    names = theorem_names(pid)
    ctx.proof["theorems"] = names
    ctx.proof["obligations"] = len(names)
    if not names:
        ctx.proof["broken"].append(("SeedProofs." + pid, "no property theorems found"))
        return
    rc, log = core.lake_build(["SeedModel", "seedmodel"] + proof_modules(pid))
    if rc != 0:
        # which theorem broke?  take the first error line
        errs = [l for l in log.split("\n") if "error" in l]
        m = None
        for l in errs:
            m = re.search(r"(SeedProofs/[\w/]+\.lean|SeedModel/[\w/]+\.lean):(\d+)", l)
            if m:
                break
        where = f"{m.group(1)}:{m.group(2)}" if m else "lake build"
        thm = locate_theorem(m.group(1), int(m.group(2))) if m else None
        ctx.proof["broken"].append((thm or where, "\n".join(errs[:6]) or log[-1500:]))
        ctx.proof["model_builds"] = core.MODEL_BIN.exists() and "SeedModel" not in where
        return
    # forbidden constructs in every file the property file (transitively) imports from SeedProofs / SeedModel
    for fp in import_closure(pid):
        body = strip_lean_comments(fp.read_text())
        for i, line in enumerate(body.split("\n")):
            if FORBIDDEN.search(line):
                ctx.proof["broken"].append((f"{fp.name}:{i+1}", f"forbidden construct: {line.strip()[:80]}"))
    # axioms audit
    # one audit per module (the property file and its extension need not be importable together: lemma files reuse short names)
    seen = {}
    out = ""
    for k, mod in enumerate(proof_modules(pid)):
        mnames = theorem_names_of(core.LEAN_DIR / (mod.replace(".", "/") + ".lean"))
        if not mnames:
            continue
        audit = core.BUILD / (f"Audit_{pid}.lean" if k == 0 else f"Audit_{pid}_{k}.lean")
        audit.write_text(f"import {mod}\n" + "".join(f"#print axioms {n}\n" for n in mnames))
        r = core.run_cmd(["lake", "env", "lean", str(audit)], cwd=core.LEAN_DIR)
        out_m = r.stdout.decode(errors="replace")
        out += out_m
        for m in re.finditer(r"'([^']+)' (does not depend on any axioms|depends on axioms: \[([^\]]*)\])", out_m, re.S):
            axs = set(a.strip() for a in (m.group(3) or "").replace("\n", " ").split(",") if a.strip())
            seen[m.group(1)] = sorted(axs)
    for n in names:
        if n not in seen:
            ctx.proof["broken"].append((n, "not reported by #print axioms: " + out[-400:]))
        elif not set(seen[n]) <= ALLOWED_AXIOMS:
            ctx.proof["broken"].append((n, f"depends on axioms {seen[n]}"))
        else:
            ctx.proof["discharged"] += 1
    ctx.proof["axioms"] = seen
    if ctx.tier == "thorough":
        for mod in proof_modules(pid):
            r = core.run_cmd(["lake", "env", "leanchecker", mod], cwd=core.LEAN_DIR)
            ctx.proof["leanchecker_rc"] = r.returncode
            if r.returncode != 0:
                ctx.proof["broken"].append((f"leanchecker {mod}", r.stdout.decode(errors="replace")[-600:]))
                break
    ctx.proof["wall_s"] = round(time.time() - t0, 1)


def import_closure(pid):
    """the SeedProofs / SeedModel source files that SeedProofs.<pid> transitively imports (itself included)"""
    seen, todo = {}, list(proof_modules(pid))
    while todo:
        mod = todo.pop()
        if mod in seen:
            continue
        fp = core.LEAN_DIR / (mod.replace(".", "/") + ".lean")
        if not fp.exists():
            continue
        seen[mod] = fp
        for m in re.finditer(r"^import\s+((?:SeedProofs|SeedModel)[\w.]*)", fp.read_text(), re.M):
            todo.append(m.group(1))
    return list(seen.values())


def locate_theorem(relpath, line):
    fp = core.LEAN_DIR / relpath
    if not fp.exists():
        return None
    last = None
    for i, l in enumerate(fp.read_text().split("\n"), 1):
        m = re.match(r"^(?:@\[[^\]]*\]\s*)?(?:theorem|lemma|def|example)\s*(\S*)", l)
        if m:
            last = f"{relpath}:{m.group(1) or 'example'}"
        if i >= line:
            break
    return last


# which properties' theorems are about which extracted table (an unknown table concerns every property)
_LEX = {"C03", "C08", "C09", "C15", "C18"}
EXTRACT_OWNERS = {
    "continuation": {"C09"}, "keywords": _LEX, "tokens": _LEX, "match_single_symbol_token": _LEX,
    "match_double_symbol_token": _LEX, "match_triple_symbol_token": _LEX,
    "grammar_terminals": {"C08", "C03"}, "postfix": {"C08", "C03"}, "range": {"C08", "C03"}, "tiers": {"C08", "C03"},
    "errors": {"C17", "C16"}, "peeled": {"C17"}, "renderer_format": {"C17"}, "typeFns": {"C16"},
    "binop_arms": {"C16", "C06"}, "eq_arms": {"C16", "C10"}, "panic_sites": {"C02"}, "bind_rejects": {"C20"}, "iterables": {"C07", "C16"},
}


# ---------------------------------------------------------------------------- main
def main():
    ap = argparse.ArgumentParser()
    ap.add_argument("pid")
    ap.add_argument("--tier", default=os.environ.get("VERIF_TIER", "quick"))
    ap.add_argument("--replay")
    args = ap.parse_args()
    pid = args.pid
    tier = args.tier if args.tier in ("quick", "thorough") else "quick"
    seed = int(os.environ.get("VERIF_SEED", "20260929"))
    ctx = Ctx(pid, tier, seed)
    mod = importlib.import_module(f"props.{pid}")
    ev_path = VERIF / "evidence" / f"{pid}.json"
    ev_path.parent.mkdir(exist_ok=True)
    build_ok = True
    try:
        core.build_impl()
    except core.BuildError as e:
        build_ok = False
        ctx.unproved("build:cargo", "the implementation no longer builds with hooks on", {"log": e.log[-3000:]})
    try:
        ctx.tables = core.extract_tables()
    except core.BuildError as e:
        # Generated.lean keeps its last good content.  The failure is a broken obligation for the properties whose theorems
        # are about the table that could not be read; for the others it is recorded, and the correspondence decides.
        ctx.tables = None
        log = e.log.strip()
        m = re.search(r"extract:([A-Za-z_]+):", log)
        table = m.group(1) if m else "?"
        owners = EXTRACT_OWNERS.get(table)
        ctx.cov["extraction_failed"] = {"table": table, "message": log[-400:], "concerns": sorted(owners) if owners else "all"}
        if owners is None or pid in owners:
            ctx.proof["broken"].append(("extract", log[-600:]))
    if args.replay:
        return replay(ctx, mod, args.replay)
    leg_a(ctx)
    model_ok = core.MODEL_BIN.exists() and ctx.proof.get("model_builds", True)
    if build_ok:
        try:
            mod.run(ctx, model_ok)
            # the everyday idioms that exercise this property's statement (lib_idioms: hand-written expectations, no model)
            import lib_idioms
            lib_idioms.run(ctx, core, pid)
        except Exception:
            ctx.unproved("harness", "the check's own machinery raised an exception", {"trace": traceback.format_exc()})
    # the listed known findings of this property are probed explicitly, so that each still-present one is reported as
    # KNOWN-FINDING on every run (and silently disappears once repaired)
    if build_ok:
        for f in ctx.known:
            if f.get("status") == "known" and f.get("property") == pid and f.get("example") and f["id"] not in [h["id"] for h in ctx.known_hits]:
                try:
                    r = core.run_cli(f["example"])
                    if "probe_expect" in f:
                        pe = f["probe_expect"]
                        ok = all(r.get(k) == v for k, v in pe.items())
                        why = f"expected {pe}, the implementation gives stdout={r['stdout']!r} status={r['status']}"
                    elif hasattr(mod, "known_probe"):
                        ok, why = mod.known_probe(ctx, f, r)
                    elif hasattr(mod, "oracle_one"):
                        ok, why = mod.oracle_one(ctx, f["example"], r)
                    else:
                        ok, why = False, "listed example"
                    if not ok:
                        ctx.violation(why, f["example"], {"cli": r, "known_probe": f["id"], "inside_slot_after_escape": f["id"] == "K2"})
                except Exception:
                    pass
    # a broken proof / extraction with no concrete failing input found by legs B/C
    found_input = any(f for _, f in ctx.violations)
    for name, why in ctx.proof["broken"]:
        if hasattr(mod, "explain_broken"):
            mod.explain_broken(ctx, name, why)
        ctx.unproved(name, why)
    if any(f for _, f in ctx.violations):
        # a concrete failing input was found: that is the report (DESIGN.md §2.1)
        ctx.cov["unproved_also_seen"] = [p for p, f in ctx.violations if not f]
        ctx.violations = [(p, f) for p, f in ctx.violations if f]
    write_evidence(ctx, mod, ev_path)
    for k in ctx.known_hits:
        print(f"KNOWN-FINDING: property={pid} {k['what']}")
    rc = 0
    for path, found in ctx.violations:
        rc = 1
        print(f"VIOLATION property={pid} replay={path}" + ("" if found else " no-failing-input-found"))
    return rc


def replay(ctx, mod, path):
    p = Path(path)
    inp = p / "input.sd" if p.is_dir() else p
    if inp.exists() and inp.suffix == ".sd":
        src = inp.read_bytes().decode("utf-8", errors="replace")
        r = core.run_cli(src)
        print(json.dumps(r, indent=1))
        if hasattr(mod, "oracle_one"):
            ok, why = mod.oracle_one(ctx, src, r)
            print("oracle:", "ok" if ok else "FAIL " + why)
            if not ok:
                print(f"VIOLATION property={ctx.pid} replay={path}")
                return 1
        # laws that relate several scripts (or several runs) cannot be judged from one input alone: there the replay
        # compares what the input does now with the observation that was recorded, and judged, when the violation was found
        rj = p / "replay.json" if p.is_dir() else None
        if rj is not None and rj.exists():
            try:
                rec = (json.loads(rj.read_text()).get("details") or {}).get("cli")
            except Exception:
                rec = None
            if isinstance(rec, dict) and all(rec.get(k) == r.get(k) for k in ("stdout", "status", "stderr")):
                print("recorded: the observation judged a violation when this replay was written is reproduced exactly")
                print(f"VIOLATION property={ctx.pid} replay={path}")
                return 1
            if isinstance(rec, dict):
                print("recorded: the input no longer behaves as it did when the violation was found")
        return 0
    print((p / "replay.json").read_text() if p.is_dir() else p.read_text())
    return 0


def write_evidence(ctx, mod, ev_path):
    cov = ctx.cov
    cov["distinct_nontrivial"] = len(ctx._nontrivial)
    cov["obligations"] = ctx.proof["obligations"]
    cov["discharged"] = ctx.proof["discharged"]
    cov["checker_cmd"] = (f"lake build SeedProofs.{ctx.pid} && lake env lean Audit_{ctx.pid}.lean "
                          "(#print axioms of every property theorem ⊆ {propext, Classical.choice, Quot.sound}; "
                          "grep for sorry/admit/axiom/native_decide/bv_decide/implemented_by/unsafe/maxHeartbeats 0)"
                          + ("; lake env leanchecker SeedProofs." + ctx.pid if ctx.tier == "thorough" else ""))
    cov["trusted_base"] = [
        "Lean 4.33.0 kernel", "axioms: " + ", ".join(sorted({a for v in ctx.proof["axioms"].values() for a in v}) or ["none"]),
        "tools/extract.py (table translator)", "correspondence (differential runs) model vs /repo on the streams listed",
        "Lean compiler for the executable model driver", "harness oracles (Python)",
    ] + list(getattr(mod, "TRUSTED", []))
    cov["theorems"] = ctx.proof["theorems"]
    cov["axioms_by_theorem"] = ctx.proof["axioms"]
    cov["broken_obligations"] = [n for n, _ in ctx.proof["broken"]]
    cov["known_findings_hit"] = [k["id"] for k in ctx.known_hits]
    if not cov["rule"]:
        cov["rule"] = getattr(mod, "RULE", "")
    if not cov["samples"]:
        cov["samples"] = ["(no case was generated: build failed before legs B/C)"]
    ev = {
        "property_id": ctx.pid, "tier": ctx.tier, "seed": ctx.seed, "level": "proof",
        "coverage": cov, "assumptions": ctx.assumptions + list(getattr(mod, "ASSUMPTIONS", [])),
        "wall_s": round(time.time() - ctx.t0, 2), "violations": len(ctx.violations),
    }
    ev_path.write_text(json.dumps(ev, indent=1, default=str))


if __name__ == "__main__":
    sys.exit(main())
