"""lib_closure_forms.py — closures whose body reaches an enclosing variable through ONE syntactic form (C04).

Every program is assembled from four independent choices, and its output is planted by the generator (plain Python string
arithmetic on the payloads, no interpreter involved):

  form    how the body of the function under test refers to the enclosing variable `x`
          reads : plain identifier, interpolation slot (alone, with text, in an expression, twice, nested literal in a slot, slot of
                  a nested function, indexed / property inside a slot), object shorthand, index / property / range-index container,
                  spread, operand, condition, callee, for-iterable, computed key of a destructuring pattern, nested function
                  (called, returned, named)
          writes: assignment, op-assignment, list / object / shorthand / collect destructuring assignment, index / property /
                  range-index target, assignment from a nested function, and the shadowing forms (declaration, `for` target) that
                  must leave the enclosing variable alone
  scope   where `x` lives and the function is created: local of a named / anonymous / method call, declared before or after the function
          (then the same text reads the global until the declaration has run),
          parameter, list / object parameter pattern, bare block, if / else branch, `for` iteration (local or the target itself),
          `while` iteration, top level (before / after the function)
  wrap    between `x` and the function: nothing, a block, an if, a one-iteration loop, an inner function that returns it
  kind    function literal in a declaration, `fn name` statement, literal inside a list, literal as an object property

The schedule is fixed: the function is used while its scope is alive, `x` is re-bound there, the scope ends (the call returns, the block
or iteration ends), a same-named global exists (declared first or afterwards) and is read through the same form, the function is used
again from the top level and from inside a caller holding its own `x`; two activations of the scope must stay apart.
"""

KONST = "fn konst(s) {\n    return fn() {\n        return s\n    }\n}\n"


def lit(kind, s):
    return {"str": f'"{s}"', "list": f'["{s}"]', "obj": '{"p": "%s"}' % s, "fn": f'konst("{s}")'}[kind]


MUT = {"str": 'x = x + "+"', "list": 'x = [x[0] + "+"]', "obj": 'x = {"p": x.p + "+"}', "fn": 'x = konst(x() + "+")'}
READ = {"str": "x", "list": "x[0]", "obj": "x.p", "fn": "x()"}

ident = lambda s: s
TABLE = '{"a": "ka", "a+": "ka+", "b": "kb", "b+": "kb+", "glob": "kglob", "user": "kuser"}'

# (name, kind of value, body lines, payload -> what `print(SHOW)` shows, SHOW with @ = the call)
READ_FORMS = [
    ("plain", "str", ["return x"], ident, "@"),
    ("slot", "str", ['return $"${x}"'], ident, "@"),
    ("slot-text", "str", ['return $"<${x}>"'], lambda s: f"<{s}>", "@"),
    ("slot-expr", "str", ['return $"${x + "."}"'], lambda s: s + ".", "@"),
    ("slot-twice", "str", ['return $"${x}-${x}"'], lambda s: s + "-" + s, "@"),
    ("slot-second", "str", ['return $"${"lit"}${x}"'], lambda s: "lit" + s, "@"),
    ("slot-nested-literal", "str", ['return $"${$"${x}"}"'], ident, "@"),
    ("slot-nested-twice", "str", ['return $"${$"[${$"${x}"}]"}"'], lambda s: f"[{s}]", "@"),
    ("slot-in-nested-fn", "str", ['return (fn() {', '    return $"${x}"', '})()'], ident, "@"),
    ("slot-index", "list", ['return $"${x[0]}"'], ident, "@"),
    ("slot-prop", "obj", ['return $"${x.p}"'], ident, "@"),
    ("slot-callee", "fn", ['return $"${x()}"'], ident, "@"),
    ("slot-in-list", "str", ['return [$"${x}"]'], ident, "@[0]"),
    ("slot-as-key", "str", ['return {$"${x}": "v"}'], lambda s: '{\n    "%s": v,\n}' % s, "@"),
    ("shorthand", "str", ["return {x}"], ident, "@.x"),
    ("shorthand-among", "str", ['return {"w": "1", x}'], ident, "@.x"),
    ("index", "list", ["return x[0]"], ident, "@"),
    ("prop", "obj", ["return x.p"], ident, "@"),
    ("index-str", "obj", ['return x["p"]'], ident, "@"),
    ("range-index", "list", ["return x[0:1]"], ident, "@[0]"),
    ("spread", "list", ["return [x..]"], ident, "@[0]"),
    ("obj-spread", "obj", ["return {x..}"], ident, "@.p"),
    ("operand-left", "str", ['return x + ""'], ident, "@"),
    ("operand-right", "str", ['return "" + x'], ident, "@"),
    ("list-item", "str", ["return [x]"], ident, "@[0]"),
    ("obj-value", "str", ['return {"v": x}'], ident, "@.v"),
    ("condition", "str", ['if x == "" {', '    return "empty"', "}", 'return "full"'], lambda s: "full", "@"),
    ("while-condition", "str", ['while x != "" {', '    return "full"', "}", 'return "empty"'], lambda s: "full", "@"),
    ("callee", "fn", ["return x()"], ident, "@"),
    ("for-iterable", "list", ["for [_, it] in x {", "    return it", "}", 'return "none"'], ident, "@"),
    ("pattern-key", "str", ["{x: got} := " + TABLE, "return got"], lambda s: "k" + s, "@"),
    ("literal-key", "str", ['return {x: "v"}'], lambda s: '{\n    "%s": v,\n}' % s, "@"),
    ("nested-fn-called", "str", ["return (fn() {", "    return x", "})()"], ident, "@"),
    ("nested-fn-returned", "str", ["return fn() {", "    return x", "}"], ident, "@()"),
    ("nested-fn-named", "str", ["fn inner() {", "    return x", "}", "return inner()"], ident, "@"),
    ("nested-twice", "str", ["return fn() {", "    return fn() {", "        return x", "    }", "}"], ident, "@()()"),
]
SLOT_FORMS = {f[0] for f in READ_FORMS if f[0].startswith("slot")}

# (name, kind of value, body lines (parameter q), (current payload, argument) -> new payload)
WRITE_FORMS = [
    ("assign", "str", ["x = q"], lambda c, a: a),
    ("op-assign", "str", ["x += q"], lambda c, a: c + a),
    ("list-destructure", "str", ["[x] = [q]"], lambda c, a: a),
    ("list-destructure-second", "str", ["[_, x] = [0, q]"], lambda c, a: a),
    ("obj-destructure", "str", ['{"k": x} = {"k": q}'], lambda c, a: a),
    ("shorthand-destructure", "str", ['{x} = {"x": q}'], lambda c, a: a),
    ("collect-destructure", "list", ["[_, ..x] = [0, q]"], lambda c, a: a),
    ("obj-collect-destructure", "obj", ['{"k": _, ..x} = {"k": 0, "p": q}'], lambda c, a: a),
    ("index-target", "list", ["x[0] = q"], lambda c, a: a),
    ("index-op-target", "list", ["x[0] += q"], lambda c, a: c + a),
    ("prop-target", "obj", ["x.p = q"], lambda c, a: a),
    ("prop-op-target", "obj", ["x.p += q"], lambda c, a: c + a),
    ("index-str-target", "obj", ['x["p"] = q'], lambda c, a: a),
    ("range-index-target", "list", ["x[0:1] = [q]"], lambda c, a: a),
    ("nested-fn-assign", "str", ["(fn() {", "    x = q", "})()"], lambda c, a: a),
    ("assign-in-block", "str", ["{", "    x = q", "}"], lambda c, a: a),
    ("assign-in-loop", "str", ["for [_, it] in [q] {", "    x = it", "}"], lambda c, a: a),
    ("shadow-declare", "str", ["x := q"], lambda c, a: c),
    ("shadow-declare-then-assign", "str", ["x := q", 'x = q + "!"'], lambda c, a: c),
    ("shadow-pattern", "str", ["[x] := [q]"], lambda c, a: c),
    ("shadow-for-target", "str", ["for [_, x] in [q] {", '    x = "inner"', "}"], lambda c, a: c),
    ("shadow-in-block", "str", ["{", "    x := q", '    x += "!"', "}"], lambda c, a: c),
]

KINDS = ["lit", "named", "in-list", "method"]
WRAPS = ["none", "block", "if", "for-once", "mid-call", "mid-lit-call"]
SCOPES = ["call-local", "call-local-late", "call-param", "call-param-list", "call-param-obj", "anon-call", "anon-call-late", "method-call",
          "method-call-late", "block", "block-late", "if-else", "if-else-late", "for-iter", "for-iter-late", "for-target", "while-iter",
          "while-iter-late", "global", "global-late"]


def ind(lines, n=1):
    return [("    " * n + l) if l else l for l in lines]


def define(name, params, body, kind):
    """statements that leave a function with `body` in the variable `name`"""
    head = f"({params}) {{"
    if kind == "lit":
        return [f"{name} := fn{head}"] + ind(body) + ["}"]
    if kind == "named":
        return [f"fn {name}{head}"] + ind(body) + ["}"]
    if kind == "in-list":
        return [f"{name}_l := [fn{head}"] + ind(body) + ["}]", f"{name} := {name}_l[0]"]
    if kind == "method":
        return [f"{name}_o := {{\"m\": fn{head}"] + ind(body) + ["}}", f"{name} := {name}_o.m"]
    raise ValueError(kind)


def wrapped(defs, exports, wrap):
    """`out := [exports]` with the definitions placed inside `wrap`"""
    exp = "[" + ", ".join(exports) + "]"
    if wrap == "none":
        return defs + [f"out := {exp}"]
    if wrap == "block":
        return ["out := null", "{"] + ind(defs + [f"out = {exp}"]) + ["}"]
    if wrap == "if":
        return ["out := null", "if out == null {"] + ind(defs + [f"out = {exp}"]) + ["}"]
    if wrap == "for-once":
        return ["out := null", "for [_, once] in [0] {"] + ind(defs + [f"out = {exp}"]) + ["}"]
    if wrap == "mid-call":
        return ["fn mid() {"] + ind(defs + [f"return {exp}"]) + ["}", "out := mid()"]
    if wrap == "mid-lit-call":
        return ["out := (fn() {"] + ind(defs + [f"return {exp}"]) + ["})()"]
    raise ValueError(wrap)


def activations(scope, kind, inner_pre, inner_post, n_exports, late):
    """the text that runs the scope once per payload ("a", "b") and leaves the exported functions of activation i in
    g<i> (and r<i>).  `inner_pre` = definitions (+ out), `inner_post` = use during the scope, re-binding.
    -> (lines, number of activations)"""
    names = lambda i: "[" + ", ".join(f"{n}{i}" for n in ("g", "r")[:n_exports]) + "]"
    decl = lambda src: [f"x := {src}"]
    va, vb = lit(kind, "a"), lit(kind, "b")

    def body(declare):
        return (inner_pre + declare + inner_post) if late else (declare + inner_pre + inner_post)

    if scope != "call-local-late" and scope != "global-late" and scope.endswith("-late"):
        scope = scope[:-5]
    if scope in ("call-local", "call-local-late", "anon-call", "method-call"):
        b = body(decl("v")) + ["return out"]
        if scope == "anon-call":
            return ["make := fn(v) {"] + ind(b) + ["}", f"{names(1)} := make({va})", f"{names(2)} := make({vb})"], 2
        if scope == "method-call":
            return ["maker := {\"make\": fn(v) {"] + ind(b) + ["}}", f"{names(1)} := maker.make({va})", f"{names(2)} := maker.make({vb})"], 2
        return ["fn make(v) {"] + ind(b) + ["}", f"{names(1)} := make({va})", f"{names(2)} := make({vb})"], 2
    if scope == "call-param":
        return ["fn make(x) {"] + ind(body([]) + ["return out"]) + ["}", f"{names(1)} := make({va})", f"{names(2)} := make({vb})"], 2
    if scope == "call-param-list":
        return ["fn make([skip, x]) {"] + ind(body([]) + ["return out"]) + ["}", f"{names(1)} := make([0, {va}])", f"{names(2)} := make([0, {vb}])"], 2
    if scope == "call-param-obj":
        return ["fn make({x}) {"] + ind(body([]) + ["return out"]) + ["}", f"{names(1)} := make({{\"x\": {va}}})",
                                                                            f"{names(2)} := make({{\"x\": {vb}}})"], 2
    if scope == "block":
        return (["keep := []", "{"] + ind(body(decl(va)) + ["keep += [out]"]) + ["}", "{"] + ind(body(decl(vb)) + ["keep += [out]"]) + ["}"] +
                [f"{names(1)} := keep[0]", f"{names(2)} := keep[1]"]), 2
    if scope == "if-else":
        return (["keep := []", "if keep == [] {"] + ind(body(decl(va)) + ["keep += [out]"]) + ["}", "if keep == [] {", '    print("never")', "} else {"] +
                ind(body(decl(vb)) + ["keep += [out]"]) + ["}", f"{names(1)} := keep[0]", f"{names(2)} := keep[1]"]), 2
    if scope == "for-iter":
        return (["keep := []", f"for [_, v] in [{va}, {vb}] {{"] + ind(body(decl("v")) + ["keep += [out]"]) + ["}"] +
                [f"{names(1)} := keep[0]", f"{names(2)} := keep[1]"]), 2
    if scope == "for-target":
        return (["keep := []", f"for [_, x] in [{va}, {vb}] {{"] + ind(body([]) + ["keep += [out]"]) + ["}"] +
                [f"{names(1)} := keep[0]", f"{names(2)} := keep[1]"]), 2
    if scope == "while-iter":
        return (["keep := []", f"vals := [{va}, {vb}]", "wi := 0", "while wi < 2 {"] + ind(body(decl("vals[wi]")) + ["keep += [out]", "wi += 1"]) + ["}"] +
                [f"{names(1)} := keep[0]", f"{names(2)} := keep[1]"]), 2
    if scope in ("global", "global-late"):
        return body(decl(va)) + [f"{names(1)} := out"], 1
    raise ValueError(scope)


def read_program(form, scope, wrap, fkind, glob_first):
    name, kind, body, show, showtxt = form
    late = scope.endswith("-late")
    is_global = scope.startswith("global")
    sh = lambda call: showtxt.replace("@", call)
    exp = []
    pre = wrapped(define("g", "", body, fkind), ["g"], wrap)
    post = [f"print({sh('out[0]()')})", MUT[kind]]
    lines = KONST.rstrip("\n").split("\n")
    if glob_first and not is_global:
        lines.append(f"x := {lit(kind, 'glob')}")
    if late and not is_global and glob_first:
        # the function exists before the local declaration: until then the same text reads the global
        pre = pre + [f"print({sh('out[0]()')})"]
    act, n = activations(scope, kind, pre, post, 1, late)
    lines += act
    # expected so far
    for p in ("a", "b")[:n]:
        if late and not is_global and glob_first:
            exp.append(show("glob"))
        exp.append(show(p))
    if not glob_first and not is_global:
        lines.append(f"x := {lit(kind, 'glob')}")
    if not is_global:
        lines += define("t", "", body, "lit") + [f"print({sh('t()')})"]
        exp.append(show("glob"))
    lines.append(f"print({sh('g1()')})")
    exp.append(show("a+"))
    if n == 2:
        lines.append(f"print({sh('g2()')})")
        exp.append(show("b+"))
    lines += ["fn user(h) {", f"    x := {lit(kind, 'user')}"] + ind(define("t2", "", body, "lit")) + [f"    print({sh('t2()')})", "    return h()", "}"]
    lines.append(f"print({sh('user(g1)')})")
    exp += [show("user"), show("a+")]
    if n == 2:
        lines.append(f"print({sh('g2()')})")
        exp.append(show("b+"))
    lines.append(f"print({READ[kind]})")
    exp.append("a+" if is_global else "glob")
    return "\n".join(lines) + "\n", "".join(e + "\n" for e in exp)


def write_program(form, scope, wrap, fkind, glob_first):
    name, kind, body, eff = form
    late = scope.endswith("-late")
    is_global = scope.startswith("global")
    rd = READ[kind]
    defs = define("g", "q", body, fkind) + define("rd", "", [f"return {rd}"], "lit")
    pre = wrapped(defs, ["g", "rd"], wrap)
    post = ['out[0]("d")', "print(out[1]())", MUT[kind]]
    lines = KONST.rstrip("\n").split("\n")
    if glob_first and not is_global:
        lines.append(f"x := {lit(kind, 'glob')}")
    globv = "glob"
    early = late and glob_first and not is_global
    if early:
        # the functions exist before the local declaration: until then the same text writes (and reads) the global
        pre = pre + ['out[0]("c")', "print(out[1]())"]
    act, n = activations(scope, kind, pre, post, 2, late)
    lines += act
    exp = []
    cur = {}
    for p in ("a", "b")[:n]:
        if early:
            globv = eff(globv, "c")
            exp.append(globv)
        c = eff(p, "d")
        exp.append(c)
        cur[p] = c + "+"
    if not glob_first and not is_global:
        lines.append(f"x := {lit(kind, 'glob')}")
    lines += ['g1("e")', "print(r1())"]
    cur["a"] = eff(cur["a"], "e")
    exp.append(cur["a"])
    if n == 2:
        lines.append("print(r2())")
        exp.append(cur["b"])
    lines.append(f"print({rd})")
    exp.append(cur["a"] if is_global else globv)
    last = "g2" if n == 2 else "g1"
    lines += ["fn user(h) {", f"    x := {lit(kind, 'user')}", '    h("f")', f"    return {rd}", "}", f"print(user({last}))"]
    exp.append("user")
    k = "b" if n == 2 else "a"
    cur[k] = eff(cur[k], "f")
    lines.append(f"print(r{2 if n == 2 else 1}())")
    exp.append(cur[k])
    if n == 2:
        lines.append("print(r1())")
        exp.append(cur["a"])
    lines.append(f"print({rd})")
    exp.append(cur["a"] if is_global else globv)
    return "\n".join(lines) + "\n", "".join(e + "\n" for e in exp)


def programs(rng, thorough):
    """-> [(tag, src, expected stdout)]"""
    out = []
    combos = []
    forms = [("R", f) for f in READ_FORMS] + [("W", f) for f in WRITE_FORMS]
    if thorough:
        for rw, f in forms:
            for sc in SCOPES:
                for w in WRAPS:
                    for k in KINDS:
                        combos.append((rw, f, sc, w, k, rng.random() < 0.5))
    else:
        # every form x scope (wrap and kind rotating so that each pair form x wrap and form x kind occurs), every slot form x scope
        # x wrap, and a random sample of the rest of the grid
        i = 0
        for rw, f in forms:
            for si, sc in enumerate(SCOPES):
                combos.append((rw, f, sc, WRAPS[(i + si) % len(WRAPS)], KINDS[(i + si // 2) % len(KINDS)], (i + si) % 2 == 0))
            i += 1
        for rw, f in forms:
            if f[0] in SLOT_FORMS:
                for si, sc in enumerate(SCOPES):
                    for wi, w in enumerate(WRAPS):
                        combos.append((rw, f, sc, w, KINDS[(si + wi) % len(KINDS)], (si + wi) % 2 == 1))
        for _ in range(300):
            rw, f = rng.choice(forms)
            combos.append((rw, f, rng.choice(SCOPES), rng.choice(WRAPS), rng.choice(KINDS), rng.random() < 0.5))
    seen = set()
    for rw, f, sc, w, k, gf in combos:
        key = (f[0], sc, w, k, gf)
        if key in seen:
            continue
        seen.add(key)
        src, exp = (read_program if rw == "R" else write_program)(f, sc, w, k, gf)
        out.append(((rw, f[0], sc, w, k, "global-first" if gf else "global-after"), src, exp))
    return out


# ---------------------------------------------------------------------------- every call has its own scope: recursion
REC_CALLS = [
    ("tail", ["return rec(@A)"]),
    ("tail-in-if", ["if i >= 0 {", "    return rec(@A)", "}", "return null"]),
    ("tail-in-else", ["if i < 0 {", "    return null", "} else {", "    return rec(@A)", "}"]),
    ("tail-in-for", ["for [_, once] in [0] {", "    return rec(@A)", "}", "return null"]),
    ("tail-in-while", ["while true {", "    return rec(@A)", "}", "return null"]),
    ("tail-in-block", ["{", "    return rec(@A)", "}"]),
    ("bound-then-returned", ["res := rec(@A)", "return res"]),
    ("operand", ["return rec(@A) + []"]),
    ("list-item", ["return [rec(@A)][0]"]),
    ("argument", ["return same(rec(@A))"]),
    ("alias", ["again := rec", "return again(@A)"]),
    ("spread-arguments", ["return rec([@A]..)"]),
    ("mutual", ["return other(@A)"]),
    ("parenthesised", ["return (rec)(@A)"]),
]
REC_CAPTURES = [
    ("parameter", [], "i", lambda i: str(i)),
    ("local", ["loc := i * 10"], "loc", lambda i: str(i * 10)),
    ("local-after-closure", None, "late", lambda i: str(i * 100)),
    ("both", ["loc := i * 10"], "i + loc", lambda i: str(i * 11)),
    ("block-local", None, "inner", lambda i: str(i * 7)),
]
REC_COLLECT = ["accumulator", "global-list", "named-fn", "counter"]


def rec_program(call, capture, collect, style):
    """`style`: 'named' (fn rec), 'literal' (rec := fn), 'method' (this.rec), 'self-param' (passed to itself)"""
    cname, clines = call
    capname, pre, expr, val = capture
    depth = 3
    fdef = ["f := fn() {", f"    return {expr}", "}"]
    if collect == "named-fn":
        fdef = ["fn f() {", f"    return {expr}", "}"]
    if collect == "counter":
        fdef = ["f := fn() {", "    i += 1", "    return i", "}"]
        if capname != "parameter":
            return None
    body = [f"if i == {depth} {{", "    return acc", "}"]
    if capname == "local-after-closure":
        body += fdef + ["late := i * 100"]
    elif capname == "block-local":
        body += ["f := null", "{", "    inner := i * 7", "    f = fn() {", "        return inner", "    }", "}"]
        if collect in ("named-fn",):
            return None
    else:
        body += pre + fdef
    if collect == "global-list":
        body += ["keep += [f]"]
        nxt = "i + 1, acc"
    else:
        nxt = "i + 1, acc + [f]"
    callee = {"named": "rec", "literal": "rec", "method": "this.rec", "self-param": "self"}[style]
    if style == "self-param":
        nxt = "self, " + nxt
    if style in ("method", "self-param") and cname in ("alias", "mutual", "parenthesised"):
        return None
    body += [l.replace("rec(", callee + "(").replace("@A", nxt) for l in clines]
    lines = ["fn same(v) {", "    return v", "}", "keep := []"]
    if style == "named":
        lines += ["fn rec(i, acc) {"] + ind(body) + ["}"]
        start = "rec(0, [])"
    elif style == "literal":
        lines += ["rec := fn(i, acc) {"] + ind(body) + ["}"]
        start = "rec(0, [])"
    elif style == "method":
        lines += ["holder := {\"rec\": fn(i, acc) {"] + ind(body) + ["}}"]
        start = "holder.rec(0, [])"
    else:
        lines += ["step := fn(self, i, acc) {"] + ind(body) + ["}"]
        start = "step(step, 0, [])"
    if cname == "mutual":
        lines += ["fn other(i, acc) {", "    return rec(i, acc)", "}"]
    lines.append(f"got := {start}")
    if collect == "global-list":
        lines.append("got = keep")
    exp = []
    if collect == "counter":
        # each level's closure counts its own parameter: interleaved calls stay apart
        lines += ["print(got[0]())", "print(got[2]())", "print(got[0]())", "print(got[1]())", "print(got[2]())"]
        exp = ["1", "3", "2", "2", "4"]
    else:
        lines += ["for [_, h] in got {", "    print(h())", "}", "print(got[0]())"]
        exp = [val(i) for i in range(depth)] + [val(0)]
    return "\n".join(lines) + "\n", "".join(e + "\n" for e in exp)


def rec_programs():
    out = []
    for call in REC_CALLS:
        for cap in REC_CAPTURES:
            for col in REC_COLLECT:
                for style in ("named", "literal", "method", "self-param"):
                    p = rec_program(call, cap, col, style)
                    if p is not None:
                        out.append((("rec", call[0], cap[0], col, style), p[0], p[1]))
    return out
