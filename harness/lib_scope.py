"""lib_scope.py — scope-operation programs with exactly known identifier occurrences (C04).

A program is built from a flat sequence of tokens over two variable names:

    Da Db   declare        x := <1000*(i+1)>
    Aa Ab   assign         x += 1
    Ra Rb   read           print(x)      (every third read: print({x}), object shorthand)
    {       open a bare block          F   open `fn f<i>(n) {` (guarded: `if n < 0 { return null; }`)
    W       open `for [_, w<i>] in 0 .. 2 {`          }   close the innermost open construct
    C       call           r<i> := f<latest>(2)   (inside a function: f<latest>(n - 1))
    T       return closure return f<latest>
    V       invoke         r<latest>(2)  /  r<latest>(n - 1)
  (only in the loop-closure stream, `TOKENS_LOOP`:)
    Rw      read the innermost enclosing loop variable      print(w<i>)
    K       keep the first   if kset == false { k0 = f<latest>; kset = true; }     (such a program starts `k0 := null`, `kset := false`)
    L       call the kept    k0(2)  /  k0(n - 1)

Every identifier occurrence is an `Occ` object, so that a renaming is exact.  `Ref` is an independent reference
interpreter (lexical scoping with shared environments) that predicts stdout and the exit status and records, for
every executed use, the declaration occurrence it resolved to: the connected components of that relation are the
variables that can be renamed consistently.
"""
import itertools

TOKENS = ["Da", "Db", "Aa", "Ab", "Ra", "Rb", "{", "F", "W", "}", "C", "T", "V"]
TOKENS_LOOP = ["W", "F", "Da", "Aa", "Ra", "Rw", "}", "K", "L"]


class Occ:
    __slots__ = ("name", "id", "decl")

    def __init__(self, name, oid, decl):
        self.name = name
        self.id = oid
        self.decl = decl      # True: a declaring occurrence


class Builder:
    """token sequence -> AST (None if the sequence is pruned)"""

    def __init__(self):
        self.n = 0

    def occ(self, name, decl=False):
        self.n += 1
        return Occ(name, self.n, decl)


def build(seq, final=True):
    """returns (ast, nocc) or None.  Pruning keeps one representative per name symmetry class and drops sequences
    whose tokens have nothing to refer to (read before any declaration text, call before any function, …)."""
    b = Builder()
    root = []
    stack = [("top", root, None)]          # (kind, body, node)
    declared = set()
    seen_names = []
    nfun = 0
    last_f = None
    last_r = None
    nreads = 0
    kept = False
    if "K" in seq or "L" in seq:
        root.append(("decl0", b.occ("k0", True), "null"))
        root.append(("decl0", b.occ("kset", True), "false"))
    for i, t in enumerate(seq):
        kind, body, node = stack[-1]
        infn = [s for s in stack if s[0] == "fn"]
        if t == "Rw":
            loops = [s for s in stack if s[0] == "loop"]
            if not loops:
                return None
            nreads += 1
            body.append(("read", b.occ(loops[-1][2]), 0))
        elif t == "K":
            if last_f is None:
                return None
            kept = True
            body.append(("keep", b.occ("kset"), b.occ("k0"), b.occ(last_f), b.occ("kset")))
        elif t == "L":
            if not kept:
                return None
            arg = ("nm1", b.occ("n")) if infn else ("lit", 2)
            body.append(("callk", b.occ("k0"), arg))
        elif t[0] in "DAR" and len(t) == 2:
            x = t[1]
            if x not in seen_names:
                if x == "b" and "a" not in seen_names:
                    return None
                seen_names.append(x)
            if t[0] == "D":
                declared.add(x)
                body.append(("decl", b.occ(x, True), 1000 * (i + 1)))
            else:
                if x not in declared:
                    return None
                if t[0] == "A":
                    body.append(("asg", b.occ(x), 1))
                else:
                    nreads += 1
                    body.append(("read", b.occ(x), 1 if nreads % 3 == 0 else 0))
        elif t == "{":
            nb = []
            body.append(("block", nb))
            stack.append(("block", nb, None))
        elif t == "F":
            nb = []
            name = f"f{nfun}"
            nfun += 1
            last_f = name
            nd = ("fn", b.occ(name, True), b.occ("n", True), b.occ("n"), nb)
            body.append(nd)
            stack.append(("fn", nb, nd))
        elif t == "W":
            nb = []
            body.append(("loop", b.occ(f"w{i}", True), nb))
            stack.append(("loop", nb, f"w{i}"))
        elif t == "}":
            if len(stack) == 1 or not body:
                return None
            stack.pop()
        elif t == "C":
            if last_f is None:
                return None
            arg = ("nm1", b.occ("n")) if infn else ("lit", 2)
            last_r = f"r{i}"
            body.append(("call", b.occ(last_r, True), b.occ(last_f), arg))
        elif t == "T":
            if not infn or last_f is None:
                return None
            body.append(("ret", b.occ(last_f)))
        elif t == "V":
            if last_r is None:
                return None
            arg = ("nm1", b.occ("n")) if infn else ("lit", 2)
            body.append(("inv", b.occ(last_r), arg))
        else:
            raise ValueError(t)
    if final:
        if nreads == 0:
            return None
        for kind, body, node in stack[1:]:
            if not body:
                return None
    return root, b.n


def sequences(maxlen, tokens=None):
    """all token sequences of length <= maxlen whose every prefix passes the prefix-closed pruning rules (depth first)"""
    tokens = tokens or TOKENS

    def go(prefix):
        for t in tokens:
            seq = prefix + (t,)
            if build(seq, final=False) is None:
                continue
            yield seq
            if len(seq) < maxlen:
                yield from go(seq)
    yield from go(())


# ---------------------------------------------------------------------------- text
def render(ast, ren=None):
    """program text; `ren` maps occurrence id -> new name (object shorthand is expanded when its variable is renamed)"""
    ren = ren or {}
    out = []

    def nm(o):
        return ren.get(o.id, o.name)

    def arg(a):
        return "2" if a[0] == "lit" else f"{nm(a[1])} - 1"

    def go(stmts, ind):
        p = "    " * ind
        for s in stmts:
            k = s[0]
            if k == "decl":
                out.append(f"{p}{nm(s[1])} := {s[2]}")
            elif k == "asg":
                out.append(f"{p}{nm(s[1])} += {s[2]}")
            elif k == "read":
                if s[2] == 0:
                    out.append(f"{p}print({nm(s[1])})")
                elif nm(s[1]) == s[1].name:
                    out.append(f"{p}print({{{s[1].name}}})")
                else:
                    out.append(f"{p}print({{\"{s[1].name}\": {nm(s[1])}}})")
            elif k == "block":
                out.append(p + "{")
                go(s[1], ind + 1)
                out.append(p + "}")
            elif k == "fn":
                out.append(f"{p}fn {nm(s[1])}({nm(s[2])}) {{")
                out.append(f"{p}    if {nm(s[3])} < 0 {{ return null; }}")
                go(s[4], ind + 1)
                out.append(p + "}")
            elif k == "loop":
                out.append(f"{p}for [_, {nm(s[1])}] in 0 .. 2 {{")
                go(s[2], ind + 1)
                out.append(p + "}")
            elif k == "call":
                out.append(f"{p}{nm(s[1])} := {nm(s[2])}({arg(s[3])})")
            elif k == "ret":
                out.append(f"{p}return {nm(s[1])}")
            elif k == "inv":
                out.append(f"{p}{nm(s[1])}({arg(s[2])})")
            elif k == "decl0":
                out.append(f"{p}{nm(s[1])} := {s[2]}")
            elif k == "keep":
                out.append(f"{p}if {nm(s[1])} == false {{ {nm(s[2])} = {nm(s[3])}; {nm(s[4])} = true; }}")
            elif k == "callk":
                out.append(f"{p}{nm(s[1])}({arg(s[2])})")
    go(ast, 0)
    return "\n".join(out) + "\n"


# ---------------------------------------------------------------------------- reference interpreter
class Stop(Exception):
    def __init__(self, kind, name):
        self.kind = kind
        self.name = name


class Ret(Exception):
    def __init__(self, v):
        self.v = v


class Fn:
    __slots__ = ("node", "env")

    def __init__(self, node, env):
        self.node = node
        self.env = env


class Ref:
    """lexical scoping: an environment is a list of dicts (innermost last); a function keeps the list it was created
    in (sharing the dicts); blocks, iterations and calls push one new dict"""

    def __init__(self, nocc):
        self.out = []
        self.parent = list(range(nocc + 1))
        self.steps = 0
        self.flags = set()          # which scoping situations this run went through (for the distribution)
        self.fnbase = [(0, 0)]      # (length of the closure part of the current environment, id of the function's name)
        self.active = []
        self.cur_env = None

    # union-find over occurrence ids
    def find(self, x):
        p = self.parent
        while p[x] != x:
            p[x] = p[p[x]]
            x = p[x]
        return x

    def link(self, a, b):
        a, b = self.find(a), self.find(b)
        if a != b:
            self.parent[a] = b

    def declare(self, env, occ, v):
        top = env[-1]
        if occ.name in top:
            # the clash is between two occurrences of one variable slot: they can only be renamed together
            self.link(occ.id, top[occ.name][1])
            raise Stop("already", occ.name)
        if any(occ.name in sc for sc in env[:-1]):
            self.flags.add("shadowing")
        top[occ.name] = [v, occ.id]

    def cell(self, env, occ):
        for i in range(len(env) - 1, -1, -1):
            c = env[i].get(occ.name)
            if c is not None:
                self.link(occ.id, c[1])
                base, fid = self.fnbase[-1]
                if i < base and i > 0:
                    self.flags.add("captured-local")
                if i < base and c[1] > fid and not isinstance(c[0], Fn):
                    self.flags.add("captured-declared-after-fn")
                if i < len(env) - 1:
                    self.flags.add("outer-scope-use")
                return c
        raise Stop("undefined", occ.name)

    def arg(self, env, a):
        if a[0] == "lit":
            return 2
        return self.cell(env, a[1])[0] - 1

    def call(self, f, v):
        if not isinstance(f, Fn):
            raise Stop("notfunc", "")
        nd = f.node
        env = f.env + [{}]
        if id(nd) in self.active:
            self.flags.add("recursion")
        if self.cur_env is not None and not any(sc is f.env[-1] for sc in self.cur_env):
            self.flags.add("closure-outlives-scope")
        self.active.append(id(nd))
        self.fnbase.append((len(f.env), nd[1].id))
        try:
            self.declare(env, nd[2], v)
            if self.cell(env, nd[3])[0] < 0:
                return None
            self.run(nd[4], env)
        except Ret as r:
            return r.v
        finally:
            self.active.pop()
            self.fnbase.pop()
        return None

    def run(self, stmts, env):
        for s in stmts:
            self.steps += 1
            k = s[0]
            if k == "decl":
                self.declare(env, s[1], s[2])
            elif k == "asg":
                c = self.cell(env, s[1])
                if s[1].name not in env[-1]:
                    self.flags.add("assign-to-outer")
                c[0] = c[0] + s[2]
            elif k == "read":
                v = self.cell(env, s[1])[0]
                self.out.append(str(v) if s[2] == 0 else "{\n    \"%s\": %d,\n}" % (s[1].name, v))
            elif k == "block":
                self.run(s[1], env + [{}])
            elif k == "fn":
                self.declare(env, s[1], Fn(s, list(env)))
            elif k == "loop":
                self.flags.add("loop")
                for i in (0, 1):
                    e2 = env + [{}]
                    self.declare(e2, s[1], i)
                    self.run(s[2], e2)
            elif k == "call":
                a = self.arg(env, s[3])
                f = self.cell(env, s[2])[0]
                self.cur_env = env
                self.declare(env, s[1], self.call(f, a))
            elif k == "ret":
                raise Ret(self.cell(env, s[1])[0])
            elif k in ("inv", "callk"):
                a = self.arg(env, s[2])
                f = self.cell(env, s[1])[0]
                self.cur_env = env
                self.call(f, a)
            elif k == "decl0":
                self.declare(env, s[1], None if s[2] == "null" else False)
            elif k == "keep":
                if self.cell(env, s[1])[0] is False:
                    f = self.cell(env + [{}], s[3])[0]
                    self.cell(env + [{}], s[2])[0] = f
                    self.cell(env + [{}], s[4])[0] = True
                    self.flags.add("closure-kept-across-iterations")


def reference(ast, nocc):
    """-> (stdout, status, error kind, classes) where classes maps a class representative to the occurrence ids
    (declarations and the uses that resolved to them)"""
    r = Ref(nocc)
    status, kind = "0", ""
    try:
        r.run(ast, [{"print": ["<builtin>", 0]}])
    except Stop as e:
        status, kind = "103", e.kind
    except Ret:
        status, kind = "103", "return-outside"
    out = "".join(l + "\n" for l in r.out)
    return out, status, kind, r


def occurrences(ast):
    res = []

    def arg(a):
        if a[0] == "nm1":
            res.append(a[1])

    def go(stmts):
        for s in stmts:
            k = s[0]
            if k in ("decl", "asg", "read", "ret"):
                res.append(s[1])
            elif k == "block":
                go(s[1])
            elif k == "fn":
                res.extend([s[1], s[2], s[3]])
                go(s[4])
            elif k == "loop":
                res.append(s[1])
                go(s[2])
            elif k == "call":
                res.extend([s[1], s[2]])
                arg(s[3])
            elif k in ("inv", "callk"):
                res.append(s[1])
                arg(s[2])
            elif k == "decl0":
                res.append(s[1])
            elif k == "keep":
                res.extend([s[1], s[2], s[3], s[4]])
    go(ast)
    return res


def rename_classes(ast, ref):
    """classes of occurrences that contain a declaration: [(original name, [occ ids])].  A use that never executed,
    or failed to resolve, belongs to no class and keeps its name."""
    groups = {}
    hasdecl = set()
    for o in occurrences(ast):
        g = ref.find(o.id)
        groups.setdefault(g, []).append(o)
        if o.decl:
            hasdecl.add(g)
    res = []
    for g, occs in groups.items():
        if g in hasdecl:
            # function names are shown by nothing these programs print, so they are renamed as well
            res.append((occs[0].name, [o.id for o in occs]))
    return res


def renamings(ast, ref):
    """-> [(tag, ren)] : every class to its own fresh name at once, and each class alone"""
    cls = rename_classes(ast, ref)
    allr = {}
    singles = []
    for i, (name, ids) in enumerate(cls):
        fresh = f"z{i}{name}"
        one = {}
        for oid in ids:
            allr[oid] = fresh
            one[oid] = fresh
        singles.append((name, one))
    return allr, singles


# ---------------------------------------------------------------------------- text -> AST (for --replay)
import re as _re

_PATS = [
    ("decl", _re.compile(r"^(\w+) := (\d+)$")),
    ("asg", _re.compile(r"^(\w+) \+= (\d+)$")),
    ("read0", _re.compile(r"^print\((\w+)\)$")),
    ("read1", _re.compile(r"^print\(\{(\w+)\}\)$")),
    ("fn", _re.compile(r"^fn (\w+)\((\w+)\) \{$")),
    ("guard", _re.compile(r"^if (\w+) < 0 \{ return null; \}$")),
    ("loop", _re.compile(r"^for \[_, (\w+)\] in 0 \.\. 2 \{$")),
    ("call", _re.compile(r"^(\w+) := (\w+)\((2|(\w+) - 1)\)$")),
    ("ret", _re.compile(r"^return (\w+)$")),
    ("decl0", _re.compile(r"^(\w+) := (null|false)$")),
    ("keep", _re.compile(r"^if (\w+) == false \{ (\w+) = (\w+); (\w+) = true; \}$")),
    ("inv", _re.compile(r"^(\w+)\((2|(\w+) - 1)\)$")),
]


def parse_text(src):
    """inverse of `render` on un-renamed programs; None when the text is not one of ours"""
    b = Builder()
    lines = [l.strip() for l in src.split("\n") if l.strip()]
    pos = [0]

    def arg(m, g):
        return ("lit", 2) if m.group(g) == "2" else ("nm1", b.occ(m.group(g + 1)))

    def block():
        body = []
        while pos[0] < len(lines):
            l = lines[pos[0]]
            if l == "}":
                return body
            pos[0] += 1
            if l == "{":
                inner = block()
                pos[0] += 1
                body.append(("block", inner))
                continue
            for k, p in _PATS:
                m = p.match(l)
                if not m:
                    continue
                if k == "decl":
                    body.append(("decl", b.occ(m.group(1), True), int(m.group(2))))
                elif k == "asg":
                    body.append(("asg", b.occ(m.group(1)), int(m.group(2))))
                elif k == "read0":
                    body.append(("read", b.occ(m.group(1)), 0))
                elif k == "read1":
                    body.append(("read", b.occ(m.group(1)), 1))
                elif k == "fn":
                    f, n = b.occ(m.group(1), True), b.occ(m.group(2), True)
                    g = dict(_PATS)["guard"].match(lines[pos[0]]) if pos[0] < len(lines) else None
                    if not g:
                        raise ValueError("guard")
                    pos[0] += 1
                    gn = b.occ(g.group(1))
                    inner = block()
                    pos[0] += 1
                    body.append(("fn", f, n, gn, inner))
                elif k == "loop":
                    w = b.occ(m.group(1), True)
                    inner = block()
                    pos[0] += 1
                    body.append(("loop", w, inner))
                elif k == "call":
                    r, f = b.occ(m.group(1), True), b.occ(m.group(2))
                    body.append(("call", r, f, arg(m, 3)))
                elif k == "ret":
                    body.append(("ret", b.occ(m.group(1))))
                elif k == "decl0":
                    body.append(("decl0", b.occ(m.group(1), True), m.group(2)))
                elif k == "keep":
                    body.append(("keep", b.occ(m.group(1)), b.occ(m.group(2)), b.occ(m.group(3)), b.occ(m.group(4))))
                elif k == "inv" and m.group(1) == "k0":
                    body.append(("callk", b.occ(m.group(1)), arg(m, 2)))
                elif k == "inv":
                    body.append(("inv", b.occ(m.group(1)), arg(m, 2)))
                elif k == "guard":
                    raise ValueError("stray guard")
                break
            else:
                raise ValueError(l)
        return body
    try:
        ast = block()
        if pos[0] != len(lines):
            return None
        return ast, b.n
    except (ValueError, IndexError):
        return None


def random_sequences(rng, count, lo=8, hi=14):
    """random longer token sequences (every prefix passes the pruning rules); closing and calling tokens are favoured
    so that closures escape, get invoked and recurse"""
    weights = {"Da": 3, "Db": 2, "Aa": 2, "Ab": 1, "Ra": 3, "Rb": 2, "{": 1, "F": 3, "W": 1, "}": 4, "C": 3, "T": 2, "V": 3}
    toks = list(weights)
    w = [weights[t] for t in toks]
    out = []
    while len(out) < count:
        n = rng.randrange(lo, hi + 1)
        seq = ()
        tries = 0
        while len(seq) < n and tries < 200:
            tries += 1
            t = rng.choices(toks, w)[0]
            if build(seq + (t,), final=False) is not None:
                seq = seq + (t,)
        if build(seq) is not None:
            out.append(seq)
    return out


class RandomAst:
    """larger scope-operation programs: nested functions that declare locals, return inner functions that read and
    update them, callers that hold same-named variables of their own (the dynamic-scoping trap), blocks and loops
    around definitions and calls, declarations placed after the function that uses them"""

    NAMES = ["a", "b", "c"]

    def __init__(self, rng):
        self.r = rng
        self.b = Builder()
        self.nf = 0
        self.nr = 0
        self.nw = 0

    def block(self, depth, scopes, funcs, results, infn):
        r = self.r
        body = []
        here = set()
        scopes = scopes + [here]
        funcs = list(funcs)
        results = list(results)
        visible = lambda: [x for x in self.NAMES if any(x in s for s in scopes)]
        mine = []
        for _ in range(r.randrange(2, 6)):
            c = r.random()
            vis = visible()
            if c < 0.22:
                cand = [x for x in self.NAMES if x not in here] or self.NAMES
                x = r.choice(cand if r.random() < 0.95 else self.NAMES)
                here.add(x)
                body.append(("decl", self.b.occ(x, True), 1000 * (self.b.n % 9 + 1)))
            elif c < 0.36:
                x = r.choice(vis) if vis and r.random() < 0.95 else r.choice(self.NAMES)
                body.append(("asg", self.b.occ(x), 1))
            elif c < 0.56:
                x = r.choice(vis) if vis and r.random() < 0.95 else r.choice(self.NAMES)
                body.append(("read", self.b.occ(x), 1 if r.random() < 0.15 else 0))
            elif c < 0.62 and depth < 3:
                if depth < 2 and r.random() < 0.5:
                    body.extend(self.idiom(here, funcs, results, infn))
                else:
                    body.append(("block", self.block(depth + 1, scopes, funcs, results, infn)))
            elif c < 0.68 and depth < 3:
                self.nw += 1
                body.append(("loop", self.b.occ(f"w{self.nw}", True), self.block(depth + 1, scopes, funcs, results, infn)))
            elif c < 0.80 and depth < 3:
                name = f"f{self.nf}"
                self.nf += 1
                f, n, g = self.b.occ(name, True), self.b.occ("n", True), self.b.occ("n")
                funcs.append(name)            # visible to itself (recursion) and to what follows
                mine.append(name)
                inner = self.block(depth + 1, scopes + [{"n"}], funcs, results, True)
                body.append(("fn", f, n, g, inner))
            elif c < 0.88 and funcs:
                f = r.choice(funcs[-3:])
                self.nr += 1
                rn = f"r{self.nr}"
                arg = ("nm1", self.b.occ("n")) if infn else ("lit", 2)
                body.append(("call", self.b.occ(rn, True), self.b.occ(f), arg))
                results.append(rn)
            elif results:
                rn = r.choice(results[-2:])
                arg = ("nm1", self.b.occ("n")) if infn else ("lit", 2)
                body.append(("inv", self.b.occ(rn), arg))
            else:
                x = r.choice(vis) if vis else "a"
                body.append(("read", self.b.occ(x), 0))
        if infn and mine and r.random() < 0.8:
            body.append(("ret", self.b.occ(r.choice(mine))))
        elif infn and funcs and r.random() < 0.3:
            body.append(("ret", self.b.occ(r.choice(funcs[-2:]))))
        return body

    def idiom(self, here, funcs, results, infn):
        """a function with a local, returning an inner function that reads/updates it; the result is invoked from a
        block that may hold a variable of the same name; a second activation gets a fresh local"""
        r, o = self.r, self.b.occ
        x = r.choice(self.NAMES)
        outer, inner = f"f{self.nf}", f"f{self.nf + 1}"
        self.nf += 2
        ib = []
        if r.random() < 0.6:
            ib.append(("asg", o(x), 1))
        ib.append(("read", o(x), 0))
        if r.random() < 0.25:
            ib.append(("decl", o(x, True), 7000))        # a later declaration in the inner body
            ib.append(("read", o(x), 0))
        ob = []
        late = r.random() < 0.3
        if not late:
            ob.append(("decl", o(x, True), 2000))
        ob.append(("fn", o(inner, True), o("n", True), o("n"), ib))
        if late:
            ob.append(("decl", o(x, True), 2000))         # declared after the function that captures it
        if r.random() < 0.5:
            ob.append(("asg", o(x), 1))
        ob.append(("ret", o(inner)))
        out = [("fn", o(outer, True), o("n", True), o("n"), ob)]
        funcs.append(outer)
        arg = lambda: ("nm1", o("n")) if infn else ("lit", 2)
        self.nr += 2
        r1, r2 = f"r{self.nr - 1}", f"r{self.nr}"
        out.append(("call", o(r1, True), o(outer), arg()))
        use = [("inv", o(r1), arg())]
        if r.random() < 0.6:
            use.insert(0, ("decl", o(x, True), 5000))     # the caller's own variable of the same name
        use.append(("inv", o(r1), arg()))
        if r.random() < 0.5:
            use.append(("read", o(x), 0))
        out.append(("block", use) if r.random() < 0.7 else ("loop", o(f"w{self.nw + 100}", True), use))
        self.nw += 1
        out.append(("call", o(r2, True), o(outer), arg()))
        out.append(("inv", o(r2), arg()))
        results.extend([r1, r2])
        return out

    def program(self):
        ast = self.block(0, [], [], [], False)
        return ast, self.b.n


def random_programs(rng, count, max_steps=3000):
    out = []
    while len(out) < count:
        ast, nocc = RandomAst(rng).program()
        try:
            o, st, kind, ref = reference(ast, nocc)
        except RecursionError:
            continue
        if ref.steps > max_steps or not o:
            continue
        out.append((ast, nocc, o, st, kind, ref))
    return out
