"""lib_scope.py — scope-operation programs with exactly known identifier occurrences (C04).

A program is built from a flat sequence of tokens over two variable names:

    Da Db   declare        x := <1000*(i+1)>
    Aa Ab   assign         x += 1
    Ra Rb   read           print(x)      (every third read: print({x}), object shorthand)
    {       open a bare block          F   open `fn f<i>(n) {` (guarded: `if n < 0 { return null; }`)
    W       open `for [_, w<i>] in 0 .. 2 {`          }   close the innermost open construct
    C       call           r<i> := f<latest>(2)   (inside a function: f<latest>(n - 1))
    T       return closure return f<latest>
    V       invoke         r<latest>(2)  /  r<latest>(n - 1)

Every identifier occurrence is an `Occ` object, so that a renaming is exact.  `Ref` is an independent reference
interpreter (lexical scoping with shared environments) that predicts stdout and the exit status and records, for
every executed use, the declaration occurrence it resolved to: the connected components of that relation are the
variables that can be renamed consistently.
"""
import itertools

TOKENS = ["Da", "Db", "Aa", "Ab", "Ra", "Rb", "{", "F", "W", "}", "C", "T", "V"]


class Occ:
    __slots__ = ("name", "id", "decl")

    def __init__(self, name, oid, decl):
        self.name = name
        self.id = oid
        self.decl = decl      # True: a declaring occurrence


class Builder:
    """token sequence -> AST (None if the sequence is pruned)"""

    def __init__(self):
        self.n = 0

    def occ(self, name, decl=False):
        self.n += 1
        return Occ(name, self.n, decl)


def build(seq, final=True):
    """returns (ast, nocc) or None.  Pruning keeps one representative per name symmetry class and drops sequences
    whose tokens have nothing to refer to (read before any declaration text, call before any function, …)."""
    b = Builder()
    root = []
    stack = [("top", root, None)]          # (kind, body, node)
    declared = set()
    seen_names = []
    nfun = 0
    last_f = None
    last_r = None
    nreads = 0
    for i, t in enumerate(seq):
        kind, body, node = stack[-1]
        infn = [s for s in stack if s[0] == "fn"]
        if t[0] in "DAR" and len(t) == 2:
            x = t[1]
            if x not in seen_names:
                if x == "b" and "a" not in seen_names:
                    return None
                seen_names.append(x)
            if t[0] == "D":
                declared.add(x)
                body.append(("decl", b.occ(x, True), 1000 * (i + 1)))
            else:
                if x not in declared:
                    return None
                if t[0] == "A":
                    body.append(("asg", b.occ(x), 1))
                else:
                    nreads += 1
                    body.append(("read", b.occ(x), 1 if nreads % 3 == 0 else 0))
        elif t == "{":
            nb = []
            body.append(("block", nb))
            stack.append(("block", nb, None))
        elif t == "F":
            nb = []
            name = f"f{nfun}"
            nfun += 1
            last_f = name
            nd = ("fn", b.occ(name, True), b.occ("n", True), b.occ("n"), nb)
            body.append(nd)
            stack.append(("fn", nb, nd))
        elif t == "W":
            nb = []
            body.append(("loop", b.occ(f"w{i}", True), nb))
            stack.append(("loop", nb, None))
        elif t == "}":
            if len(stack) == 1 or not body:
                return None
            stack.pop()
        elif t == "C":
            if last_f is None:
                return None
            arg = ("nm1", b.occ("n")) if infn else ("lit", 2)
            last_r = f"r{i}"
            body.append(("call", b.occ(last_r, True), b.occ(last_f), arg))
        elif t == "T":
            if not infn or last_f is None:
                return None
            body.append(("ret", b.occ(last_f)))
        elif t == "V":
            if last_r is None:
                return None
            arg = ("nm1", b.occ("n")) if infn else ("lit", 2)
            body.append(("inv", b.occ(last_r), arg))
        else:
            raise ValueError(t)
    if final:
        if nreads == 0:
            return None
        for kind, body, node in stack[1:]:
            if not body:
                return None
    return root, b.n


def sequences(maxlen):
    """all token sequences of length <= maxlen whose every prefix passes the prefix-closed pruning rules (depth first)"""
    def go(prefix):
        for t in TOKENS:
            seq = prefix + (t,)
            if build(seq, final=False) is None:
                continue
            yield seq
            if len(seq) < maxlen:
                yield from go(seq)
    yield from go(())


# ---------------------------------------------------------------------------- text
def render(ast, ren=None):
    """program text; `ren` maps occurrence id -> new name (object shorthand is expanded when its variable is renamed)"""
    ren = ren or {}
    out = []

    def nm(o):
        return ren.get(o.id, o.name)

    def arg(a):
        return "2" if a[0] == "lit" else f"{nm(a[1])} - 1"

    def go(stmts, ind):
        p = "    " * ind
        for s in stmts:
            k = s[0]
            if k == "decl":
                out.append(f"{p}{nm(s[1])} := {s[2]}")
            elif k == "asg":
                out.append(f"{p}{nm(s[1])} += {s[2]}")
            elif k == "read":
                if s[2] == 0:
                    out.append(f"{p}print({nm(s[1])})")
                elif nm(s[1]) == s[1].name:
                    out.append(f"{p}print({{{s[1].name}}})")
                else:
                    out.append(f"{p}print({{\"{s[1].name}\": {nm(s[1])}}})")
            elif k == "block":
                out.append(p + "{")
                go(s[1], ind + 1)
                out.append(p + "}")
            elif k == "fn":
                out.append(f"{p}fn {nm(s[1])}({nm(s[2])}) {{")
                out.append(f"{p}    if {nm(s[3])} < 0 {{ return null; }}")
                go(s[4], ind + 1)
                out.append(p + "}")
            elif k == "loop":
                out.append(f"{p}for [_, {nm(s[1])}] in 0 .. 2 {{")
                go(s[2], ind + 1)
                out.append(p + "}")
            elif k == "call":
                out.append(f"{p}{nm(s[1])} := {nm(s[2])}({arg(s[3])})")
            elif k == "ret":
                out.append(f"{p}return {nm(s[1])}")
            elif k == "inv":
                out.append(f"{p}{nm(s[1])}({arg(s[2])})")
    go(ast, 0)
    return "\n".join(out) + "\n"


# ---------------------------------------------------------------------------- reference interpreter
class Stop(Exception):
    def __init__(self, kind, name):
        self.kind = kind
        self.name = name


class Ret(Exception):
    def __init__(self, v):
        self.v = v


class Fn:
    __slots__ = ("node", "env")

    def __init__(self, node, env):
        self.node = node
        self.env = env


class Ref:
    """lexical scoping: an environment is a list of dicts (innermost last); a function keeps the list it was created
    in (sharing the dicts); blocks, iterations and calls push one new dict"""

    def __init__(self, nocc):
        self.out = []
        self.parent = list(range(nocc + 1))
        self.steps = 0

    # union-find over occurrence ids
    def find(self, x):
        p = self.parent
        while p[x] != x:
            p[x] = p[p[x]]
            x = p[x]
        return x

    def link(self, a, b):
        a, b = self.find(a), self.find(b)
        if a != b:
            self.parent[a] = b

    def declare(self, env, occ, v):
        top = env[-1]
        if occ.name in top:
            # the clash is between two occurrences of one variable slot: they can only be renamed together
            self.link(occ.id, top[occ.name][1])
            raise Stop("already", occ.name)
        top[occ.name] = [v, occ.id]

    def cell(self, env, occ):
        for sc in reversed(env):
            c = sc.get(occ.name)
            if c is not None:
                self.link(occ.id, c[1])
                return c
        raise Stop("undefined", occ.name)

    def arg(self, env, a):
        if a[0] == "lit":
            return 2
        return self.cell(env, a[1])[0] - 1

    def call(self, f, v):
        if not isinstance(f, Fn):
            raise Stop("notfunc", "")
        nd = f.node
        env = f.env + [{}]
        self.declare(env, nd[2], v)
        try:
            if self.cell(env, nd[3])[0] < 0:
                return None
            self.run(nd[4], env)
        except Ret as r:
            return r.v
        return None

    def run(self, stmts, env):
        for s in stmts:
            self.steps += 1
            k = s[0]
            if k == "decl":
                self.declare(env, s[1], s[2])
            elif k == "asg":
                c = self.cell(env, s[1])
                c[0] = c[0] + s[2]
            elif k == "read":
                v = self.cell(env, s[1])[0]
                self.out.append(str(v) if s[2] == 0 else "{\n    \"%s\": %d,\n}" % (s[1].name, v))
            elif k == "block":
                self.run(s[1], env + [{}])
            elif k == "fn":
                self.declare(env, s[1], Fn(s, list(env)))
            elif k == "loop":
                for i in (0, 1):
                    e2 = env + [{}]
                    self.declare(e2, s[1], i)
                    self.run(s[2], e2)
            elif k == "call":
                a = self.arg(env, s[3])
                f = self.cell(env, s[2])[0]
                self.declare(env, s[1], self.call(f, a))
            elif k == "ret":
                raise Ret(self.cell(env, s[1])[0])
            elif k == "inv":
                a = self.arg(env, s[2])
                f = self.cell(env, s[1])[0]
                self.call(f, a)


def reference(ast, nocc):
    """-> (stdout, status, error kind, classes) where classes maps a class representative to the occurrence ids
    (declarations and the uses that resolved to them)"""
    r = Ref(nocc)
    status, kind = "0", ""
    try:
        r.run(ast, [{"print": ["<builtin>", 0]}])
    except Stop as e:
        status, kind = "103", e.kind
    except Ret:
        status, kind = "103", "return-outside"
    out = "".join(l + "\n" for l in r.out)
    return out, status, kind, r


def occurrences(ast):
    res = []

    def arg(a):
        if a[0] == "nm1":
            res.append(a[1])

    def go(stmts):
        for s in stmts:
            k = s[0]
            if k in ("decl", "asg", "read", "ret"):
                res.append(s[1])
            elif k == "block":
                go(s[1])
            elif k == "fn":
                res.extend([s[1], s[2], s[3]])
                go(s[4])
            elif k == "loop":
                res.append(s[1])
                go(s[2])
            elif k == "call":
                res.extend([s[1], s[2]])
                arg(s[3])
            elif k == "inv":
                res.append(s[1])
                arg(s[2])
    go(ast)
    return res


def rename_classes(ast, ref):
    """classes of occurrences that contain a declaration: [(original name, [occ ids])].  A use that never executed,
    or failed to resolve, belongs to no class and keeps its name."""
    groups = {}
    hasdecl = set()
    for o in occurrences(ast):
        g = ref.find(o.id)
        groups.setdefault(g, []).append(o)
        if o.decl:
            hasdecl.add(g)
    res = []
    for g, occs in groups.items():
        if g in hasdecl:
            # function names are shown by nothing these programs print, so they are renamed as well
            res.append((occs[0].name, [o.id for o in occs]))
    return res


def renamings(ast, ref):
    """-> [(tag, ren)] : every class to its own fresh name at once, and each class alone"""
    cls = rename_classes(ast, ref)
    allr = {}
    singles = []
    for i, (name, ids) in enumerate(cls):
        fresh = f"z{i}{name}"
        one = {}
        for oid in ids:
            allr[oid] = fresh
            one[oid] = fresh
        singles.append((name, one))
    return allr, singles
