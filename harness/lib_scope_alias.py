"""lib_scope_alias.py — alias / copy / mutate / observe histories and their Python reference (C05).

Three variables x, y, z hold containers (lists or objects).  A history is a list of operations; the reference executes
it on Python lists and dicts, whose object identity stands for container identity:

    alias   u = v | u[0] = v | u = idf(v) | u = v[0] | u = mk(v)() | [u, _] = [v, 0] | {"k": u} = {"k": v}
            | for [_, e] in [v] { u = e } | u = [v] | u = {"k": v}              (the last two: fresh holder, shared element)
    build   u = 0 .. 2
    copy    u = [v..] | u = {v..} | u = v + [] | u = [] + v | u = v[:] | u = v[0:1] | [..u] = v | {..u} = v | u += [k]
            | u[0] += [k] | u.k += [k]   (a new list is stored in the slot)
    mutate  u[0] = k | u.k = k | u[0:1] = [k] | u["k"] = k | setf(u, k) | u[0] += 1 | u[0][0] = k (through a stored child)
    observe print of every variable, `===` between every pair of variables of the same kind and between every stored
            child and every variable, after every operation

The reference encodes the statement of the property: alias operations bind the same Python object, copy operations build
a new list/dict with the same element objects, `u += [k]` builds a new list, mutations update the one object in place.
Histories that would create a value containing itself are not generated (printing them has no finite result).
"""

import copy

PRELUDE = ("fn idf(p) { return p; }\n"
           "fn setf(p, v) { p[0] = v; }\n"
           "fn setk(p, v) { p.k = v; }\n"
           "fn mk(p) { return fn() { return p; }; }\n")
VARS = ["x", "y", "z"]
INITS = {
    "lists": ("x := [1]\ny := [2]\nz := [3]\n", lambda: {"x": [1], "y": [2], "z": [3]}),
    "mixed": ("x := [1]\ny := {\"k\": 2}\nz := [[3]]\n", lambda: {"x": [1], "y": {"k": 2}, "z": [[3]]}),
    "objects": ("x := {\"k\": 1}\ny := {\"k\": {\"k\": 2}}\nz := {\"k\": 3}\n",
                lambda: {"x": {"k": 1}, "y": {"k": {"k": 2}}, "z": {"k": 3}}),
}


def is_c(v):
    return isinstance(v, (list, dict))


def slot(v):
    return v[0] if isinstance(v, list) else v["k"]


def slot_txt(u, v):
    return f"{u}[0]" if isinstance(v, list) else f"{u}.k"


def set_slot(c, v):
    if isinstance(c, list):
        c[0] = v
    else:
        c["k"] = v


def reaches(a, b, seen=None):
    """container b is reachable from container a (a is b counts)"""
    if a is b:
        return True
    seen = seen if seen is not None else set()
    if id(a) in seen:
        return False
    seen.add(id(a))
    for e in (a if isinstance(a, list) else a.values()):
        if is_c(e) and reaches(e, b, seen):
            return True
    return False


def render(v, ind=""):
    """the text `print` produces"""
    if isinstance(v, bool):
        return "true" if v else "false"
    if isinstance(v, int):
        return str(v)
    if isinstance(v, str):
        return v
    if v is None:
        return "<null>"
    if isinstance(v, list):
        return "[\n" + "".join(ind + "    " + render(e, ind + "    ") + ",\n" for e in v) + ind + "]"
    return "{\n" + "".join(ind + "    \"" + k + "\": " + render(v[k], ind + "    ") + ",\n" for k in sorted(v)) + ind + "}"


def ops(env, k):
    """every operation applicable in `env`: (tag, seed text, function applying it to a Python environment).
    `k` is a fresh integer for this step."""
    out = []
    for u in VARS:
        cu = env[u]
        ul = isinstance(cu, list)
        for v in VARS:
            if u == v:
                continue
            cv = env[v]
            vl = isinstance(cv, list)
            out.append(("alias:assign", f"{u} = {v}", lambda e, u=u, v=v: e.__setitem__(u, e[v])))
            if not reaches(cv, cu):
                out.append(("alias:store", f"{slot_txt(u, cu)} = {v}", lambda e, u=u, v=v: set_slot(e[u], e[v])))
            out.append(("alias:arg-return", f"{u} = idf({v})", lambda e, u=u, v=v: e.__setitem__(u, e[v])))
            out.append(("alias:closure", f"{u} = mk({v})()", lambda e, u=u, v=v: e.__setitem__(u, e[v])))
            if is_c(slot(cv)):
                out.append(("alias:read-child", f"{u} = {slot_txt(v, cv)}", lambda e, u=u, v=v: e.__setitem__(u, slot(e[v]))))
            out.append(("alias:list-pattern", f"[{u}, _] = [{v}, 0]", lambda e, u=u, v=v: e.__setitem__(u, e[v])))
            out.append(("alias:object-pattern", f"{{\"k\": {u}}} = {{\"k\": {v}}}", lambda e, u=u, v=v: e.__setitem__(u, e[v])))
            out.append(("alias:for-pair", f"for [_, e] in [{v}] {{\n    {u} = e\n}}", lambda e, u=u, v=v: e.__setitem__(u, e[v])))
            out.append(("build:list-of", f"{u} = [{v}]", lambda e, u=u, v=v: e.__setitem__(u, [e[v]])))
            out.append(("build:object-of", f"{u} = {{\"k\": {v}}}", lambda e, u=u, v=v: e.__setitem__(u, {"k": e[v]})))
            if vl:
                out.append(("copy:spread", f"{u} = [{v}..]", lambda e, u=u, v=v: e.__setitem__(u, list(e[v]))))
                out.append(("copy:plus-right", f"{u} = {v} + []", lambda e, u=u, v=v: e.__setitem__(u, e[v] + [])))
                out.append(("copy:plus-left", f"{u} = [] + {v}", lambda e, u=u, v=v: e.__setitem__(u, [] + e[v])))
                out.append(("copy:range-all", f"{u} = {v}[:]", lambda e, u=u, v=v: e.__setitem__(u, e[v][:])))
                out.append(("copy:range-first", f"{u} = {v}[0:1]", lambda e, u=u, v=v: e.__setitem__(u, e[v][0:1])))
                out.append(("copy:collect", f"[..{u}] = {v}", lambda e, u=u, v=v: e.__setitem__(u, list(e[v]))))
            else:
                out.append(("copy:object-spread", f"{u} = {{{v}..}}", lambda e, u=u, v=v: e.__setitem__(u, dict(e[v]))))
                out.append(("copy:object-collect", f"{{..{u}}} = {v}", lambda e, u=u, v=v: e.__setitem__(u, dict(e[v]))))
        # one variable
        out.append(("build:range", f"{u} = 0 .. 2", lambda e, u=u: e.__setitem__(u, [0, 1])))
        if ul:
            if len(cu) < 3:
                out.append(("copy:op-assign", f"{u} += [{k}]", lambda e, u=u: e.__setitem__(u, e[u] + [k])))
            out.append(("mutate:element", f"{u}[0] = {k}", lambda e, u=u: e[u].__setitem__(0, k)))
            out.append(("mutate:range", f"{u}[0:1] = [{k}]", lambda e, u=u: e[u].__setitem__(0, k)))
            out.append(("mutate:through-parameter", f"setf({u}, {k})", lambda e, u=u: e[u].__setitem__(0, k)))
        else:
            out.append(("mutate:property", f"{u}.k = {k}", lambda e, u=u: e[u].__setitem__("k", k)))
            out.append(("mutate:index-property", f"{u}[\"k\"] = {k}", lambda e, u=u: e[u].__setitem__("k", k)))
            out.append(("mutate:through-parameter", f"setk({u}, {k})", lambda e, u=u: e[u].__setitem__("k", k)))
            if "j" not in cu:
                out.append(("mutate:new-property", f"{u}.j = {k}", lambda e, u=u: e[u].__setitem__("j", k)))
        s = slot(cu)
        if isinstance(s, int):
            out.append(("mutate:element-op-assign", f"{slot_txt(u, cu)} += 1", lambda e, u=u: set_slot(e[u], slot(e[u]) + 1)))
        else:
            out.append(("mutate:through-child", f"{slot_txt(slot_txt(u, cu), s)} = {k}", lambda e, u=u: set_slot(slot(e[u]), k)))
            if isinstance(s, list) and len(s) < 3:
                # `u[0] += [k]` / `u.k += [k]` stores a *new* list in the slot; other aliases of the old child keep the old one
                out.append(("copy:slot-op-assign", f"{slot_txt(u, cu)} += [{k}]",
                            lambda e, u=u: set_slot(e[u], slot(e[u]) + [k])))
    return out


def observe(env):
    """(seed text, expected output lines)"""
    txt, exp = [], []
    for u in VARS:
        txt.append(f"print({u})")
        exp.append(render(env[u]))
    for i, u in enumerate(VARS):
        for v in VARS[i + 1:]:
            if type(env[u]) is type(env[v]):
                txt.append(f"print({u} === {v})")
                exp.append("true" if env[u] is env[v] else "false")
                txt.append(f"print({u} !== {v})")
                exp.append("false" if env[u] is env[v] else "true")
    for u in VARS:
        s = slot(env[u])
        if is_c(s):
            for v in VARS:
                if type(s) is type(env[v]):
                    txt.append(f"print({slot_txt(u, env[u])} === {v})")
                    exp.append("true" if s is env[v] else "false")
    return txt, exp


def shape(env):
    """the heap reachable from x, y, z up to renaming of containers; integers are abstracted away"""
    num = {}
    cells = []

    def go(c):
        if id(c) in num:
            return num[id(c)]
        n = len(num)
        num[id(c)] = n
        cells.append(None)
        if isinstance(c, list):
            cells[n] = ("L",) + tuple(go(e) if is_c(e) else "i" for e in c)
        else:
            cells[n] = ("O",) + tuple((k, go(c[k]) if is_c(c[k]) else "i") for k in sorted(c))
        return n
    roots = tuple(go(env[u]) for u in VARS)
    return roots, tuple(cells)


def replay(init, history):
    """run a history (list of (step index, op index)) on a fresh Python environment"""
    env = INITS[init][1]()
    for step, (tag, txt, fn) in enumerate(history):
        fn(env)
    return env


class Explorer:
    """breadth-first over distinct heap shapes: from every shape first reached at depth d < bound, every applicable
    operation is tried once; one script per (shape, operation)"""

    def __init__(self, init, bound, max_cells=4):
        self.init = init
        self.bound = bound
        self.max_cells = max_cells
        self.cyclic = 0
        self.too_big = 0

    def scripts(self):
        """yields (tags, script text, expected stdout, shape before the last op)"""
        seen = {}
        env0 = INITS[self.init][1]()
        frontier = [[]]              # histories as lists of op indices per step
        seen[shape(env0)] = True
        for depth in range(self.bound):
            nxt = []
            for hist in frontier:
                # rebuild the environment and the text of the prefix
                env = INITS[self.init][1]()
                lines, expect, tags = [], [], []
                for step, idx in enumerate(hist):
                    tag, txt, fn = ops(env, 10 * (step + 1))[idx]
                    fn(env)
                    lines.append(txt)
                    tags.append(tag)
                    o_t, o_e = observe(env)
                    lines += o_t
                    expect += o_e
                step = len(hist)
                before = shape(env)
                for idx, (tag, txt, fn) in enumerate(ops(env, 10 * (step + 1))):
                    e2 = copy.deepcopy(env)          # keeps the sharing structure
                    fn(e2)
                    sh = shape(e2)
                    if len(sh[1]) > self.max_cells:
                        self.too_big += 1
                        continue
                    o_t, o_e = observe(e2)
                    src = PRELUDE + INITS[self.init][0] + "\n".join(lines + [txt] + o_t) + "\n"
                    yield tags + [tag], src, "".join(l + "\n" for l in expect + o_e), before
                    if sh not in seen:
                        seen[sh] = True
                        nxt.append(hist + [idx])
            frontier = nxt
        self.shapes = len(seen)


def random_history(rng, init, length):
    """(tags, script, expected stdout)"""
    env = INITS[init][1]()
    lines, expect, tags = [], [], []
    for step in range(length):
        cand = ops(env, 10 * (step + 1))
        tag, txt, fn = cand[rng.randrange(len(cand))]
        fn(env)
        lines.append(txt)
        tags.append(tag)
        o_t, o_e = observe(env)
        lines += o_t
        expect += o_e
    return tags, PRELUDE + INITS[init][0] + "\n".join(lines) + "\n", "".join(l + "\n" for l in expect)


# ---------------------------------------------------------------------------- scalars
SCALAR_PRELUDE = ("fn idf(p) { return p; }\n"
                  "fn bump(p) { p += INC; return p; }\n"
                  "fn mk(p) { return fn() { p += INC; return p; }; }\n")


def scalar_ops(kind):
    """operations on variables s, t (scalars) and containers c (list) and o (object) holding scalars.
    Each: (tag, text, python function on env)"""
    inc = 1 if kind == "int" else "x"
    inct = "1" if kind == "int" else "\"x\""
    out = []
    for u, v in (("s", "t"), ("t", "s")):
        out.append(("copy:assign", f"{u} = {v}", lambda e, u=u, v=v: e.__setitem__(u, e[v])))
        out.append(("copy:arg-return", f"{u} = idf({v})", lambda e, u=u, v=v: e.__setitem__(u, e[v])))
        out.append(("op:on-variable", f"{u} += {inct}", lambda e, u=u: e.__setitem__(u, e[u] + inc)))
        out.append(("op:on-parameter", f"print(bump({u}))", lambda e, u=u: e["out"].append(e[u] + inc)))
        out.append(("op:on-captured-parameter", f"print(mk({u})())", lambda e, u=u: e["out"].append(e[u] + inc)))
        out.append(("store:element", f"c[0] = {u}", lambda e, u=u: e["c"].__setitem__(0, e[u])))
        out.append(("store:property", f"o.k = {u}", lambda e, u=u: e["o"].__setitem__("k", e[u])))
        out.append(("copy:from-element", f"{u} = c[0]", lambda e, u=u: e.__setitem__(u, e["c"][0])))
        out.append(("copy:from-property", f"{u} = o.k", lambda e, u=u: e.__setitem__(u, e["o"]["k"])))
        out.append(("copy:pattern", f"[{u}, _] = [{v}, 0]", lambda e, u=u, v=v: e.__setitem__(u, e[v])))
    out.append(("op:on-element", f"c[0] += {inct}", lambda e: e["c"].__setitem__(0, e["c"][0] + inc)))
    out.append(("op:on-property", f"o.k += {inct}", lambda e: e["o"].__setitem__("k", e["o"]["k"] + inc)))
    out.append(("copy:container-spread", "c = [c..]", lambda e: e.__setitem__("c", list(e["c"]))))
    if kind == "str":
        out.append(("op:slice-of-copy", "t = s[0:1]", lambda e: e.__setitem__("t", e["s"][0:1])))
        out.append(("op:concat", "t = s + t", lambda e: e.__setitem__("t", e["s"] + e["t"])))
    else:
        out.append(("op:arith", "t = s * 2", lambda e: e.__setitem__("t", e["s"] * 2)))
        out.append(("op:arith-self", "s = s - t", lambda e: e.__setitem__("s", e["s"] - e["t"])))
    return out


def scalar_script(kind, idxs):
    allops = scalar_ops(kind)
    if kind == "int":
        init = "s := 5\nt := 7\nc := [9]\no := {\"k\": 11}\n"
        env = {"s": 5, "t": 7, "c": [9], "o": {"k": 11}, "out": []}
        inct = "1"
    elif kind == "str":
        init = "s := \"a\"\nt := \"b\"\nc := [\"c\"]\no := {\"k\": \"d\"}\n"
        env = {"s": "a", "t": "b", "c": ["c"], "o": {"k": "d"}, "out": []}
        inct = "\"x\""
    lines, tags = [], []
    for i in idxs:
        tag, txt, fn = allops[i]
        fn(env)
        tags.append(tag)
        lines.append(txt)
        lines += ["print(s)", "print(t)", "print(c)", "print(o)"]
        env["out"] += [env["s"], env["t"], [*env["c"]], dict(env["o"])]
    exp = "".join(render(v) + "\n" for v in env["out"])
    return tags, SCALAR_PRELUDE.replace("INC", inct) + init + "\n".join(lines) + "\n", exp


# ---------------------------------------------------------------------------- script -> expectation (replay, shrinking)
def expected_of(src, max_steps=None):
    """re-derive (prefix script, expected stdout, tags) from the text of a container-history script; None if the text
    is not one of ours.  With `max_steps` only that many operations are kept."""
    if not src.startswith(PRELUDE):
        return None
    body = src[len(PRELUDE):]
    init = None
    for name, (txt, mk_env) in INITS.items():
        if body.startswith(txt):
            init = name
            body = body[len(txt):]
            break
    if init is None:
        return None
    env = INITS[init][1]()
    lines = body.split("\n")
    i = 0
    step = 0
    kept, expect, tags = [], [], []
    while i < len(lines) and lines[i] != "":
        if max_steps is not None and step >= max_steps:
            break
        l = lines[i]
        if l.startswith("for ") and i + 2 < len(lines):
            l = "\n".join(lines[i:i + 3])
            i += 3
        else:
            i += 1
        step += 1
        hit = [o for o in ops(env, 10 * step) if o[1] == l]
        if not hit:
            return None
        hit[0][2](env)
        tags.append(hit[0][0])
        o_t, o_e = observe(env)
        if lines[i:i + len(o_t)] != o_t:
            return None
        i += len(o_t)
        kept += [l] + o_t
        expect += o_e
    return PRELUDE + INITS[init][0] + "\n".join(kept) + "\n", "".join(e + "\n" for e in expect), tags


def scalar_expected_of(src):
    for kind, inct in (("int", "1"), ("str", "\"x\"")):
        pre = SCALAR_PRELUDE.replace("INC", inct)
        if not src.startswith(pre):
            continue
        allops = scalar_ops(kind)
        texts = [o[1] for o in allops]
        lines = src[len(pre):].split("\n")[4:]
        idxs = []
        i = 0
        while i < len(lines) and lines[i] != "":
            if lines[i] not in texts or lines[i + 1:i + 5] != ["print(s)", "print(t)", "print(c)", "print(o)"]:
                break
            idxs.append(texts.index(lines[i]))
            i += 5
        else:
            tags, s2, exp = scalar_script(kind, idxs)
            if s2 == src:
                return exp, tags
    return None
