"""lib_syntax.py — helpers shared by the checks C08, C09, C15, C18 (syntax / layout / positions).

Nothing here consults the Lean model.  Token *boundaries* are taken from the implementation's token
dump (start / end positions); every boundary is validated against the text it delimits (`Tok.text` must
spell the token the dump names), and everything that is *expected* of the implementation afterwards is
computed from the text with the few-line references `pos_of` / documented tables below.
"""
import re

import core

# ------------------------------------------------------------------------------------------ documented tables
SYMBOL = {
    "BraceClose": "}", "BraceOpen": "{", "BracketClose": "]", "BracketOpen": "[", "Colon": ":", "Comma": ",",
    "Div": "/", "Dot": ".", "Equals": "=", "GreaterThan": ">", "LessThan": "<", "Mod": "%", "Mul": "*",
    "ParenClose": ")", "ParenOpen": "(", "Sub": "-", "Sum": "+", "AmpAmp": "&&", "BangEquals": "!=",
    "ColonEquals": ":=", "DashGreaterThan": "->", "DivEquals": "/=", "DotDot": "..", "EqualsEquals": "==",
    "GreaterThanEquals": ">=", "LessThanEquals": "<=", "ModEquals": "%=", "MulEquals": "*=", "PipePipe": "||",
    "SubEquals": "-=", "SumEquals": "+=", "EqualsEqualsEquals": "===", "BangEqualsEquals": "!==",
}
KEYWORD = {"Break": "break", "Continue": "continue", "Else": "else", "False": "false", "Fn": "fn", "For": "for",
           "If": "if", "In": "in", "Null": "null", "Return": "return", "True": "true", "While": "while"}
SYMBOL_TEXTS = sorted(SYMBOL.values())
# the statement of C09: a line break directly after one of these continues the statement
CONTINUATION_TEXTS = ["+", "-", "*", "/", "%", "==", "!=", "<", "<=", ">", ">=", "&&", "||", "=", ":=", "+=", "-=",
                      "*=", "/=", "%=", ",", ".", "(", "[", "{"]
CONTINUATION_KINDS = {k for k, v in SYMBOL.items() if v in CONTINUATION_TEXTS}
assert len(CONTINUATION_KINDS) == 25


# ------------------------------------------------------------------------------------------ positions
def pos_of(text, i):
    """THE reference: line and column of the character at offset `i` (offsets and columns count characters)"""
    before = text[:i]
    line = 1 + before.count("\n")
    col = 1 + len(before) - (before.rfind("\n") + 1)
    return line, col


def line_starts(text):
    ls = [None, 0]
    for i, ch in enumerate(text):
        if ch == "\n":
            ls.append(i + 1)
    return ls


def off_of(ls, l, c, n):
    """offset of a position the scanner reports: column 0 of line l is the newline that ends line l-1"""
    if l < 1 or l >= len(ls):
        return None
    o = ls[l] + c - 1
    return o if 0 <= o <= n else None


# ------------------------------------------------------------------------------------------ token dumps
class Tok:
    __slots__ = ("kind", "payload", "start", "end", "s", "e", "text")

    def __init__(self, kind, payload, start, end):
        self.kind, self.payload, self.start, self.end = kind, payload, start, end
        self.s = self.e = None
        self.text = None

    def key(self):
        return (self.kind, self.payload)

    def __repr__(self):
        return f"Tok({self.kind} {self.payload!r} {self.start} [{self.s}:{self.e}] {self.text!r})"


def _loc(s):
    a, b = s.split(":")
    return int(a), int(b)


def parse_tok_block(block):
    """-> (tokens, err) ; err = None | ("lex", kind, (l,c), payload_hex) | ("dump", text)"""
    toks = []
    err = None
    for line in block.split("\n"):
        if not line:
            continue
        f = line.split(" ")
        if f[0] == "T":
            toks.append(Tok(f[3], " ".join(f[4:]), _loc(f[1]), _loc(f[2])))
        elif f[0] == "E":
            err = ("lex", f[1], _loc(f[2]), f[3] if len(f) > 3 else "")
        else:
            err = ("dump", line)
    return toks, err


def unhex(p):
    return bytes.fromhex(p[1:]).decode("utf-8")


class Boundaries(Exception):
    pass


def locate(src, toks):
    """fill in offsets [s, e) and text of every token from the dump's positions and validate the text"""
    ls = line_starts(src)
    n = len(src)
    for t in toks:
        s = off_of(ls, t.start[0], t.start[1], n)
        if s is None:
            raise Boundaries(f"start {t.start} of {t.kind} outside the text")
        if t.kind == "StmtEnd":
            e = s + 1
        else:
            eo = off_of(ls, t.end[0], t.end[1], n)
            if eo is None:
                raise Boundaries(f"end {t.end} of {t.kind} outside the text")
            # the reported end is the last character of the token, except that a token directly followed by a
            # newline reports that newline's position (line+1, column 0): no token but StmtEnd ends in a newline
            e = eo if t.end[1] == 0 else eo + 1
        t.s, t.e, t.text = s, e, src[s:e]
        ok = True
        if t.kind == "StmtEnd":
            ok = t.text in ("\n", ";")
        elif t.kind in SYMBOL:
            ok = t.text == SYMBOL[t.kind]
        elif t.kind in KEYWORD:
            ok = t.text == KEYWORD[t.kind]
        elif t.kind == "Ident":
            ok = t.text == unhex(t.payload)
        elif t.kind == "IntLiteral":
            ok = re.fullmatch(r"[0-9][0-9_]*", t.text) is not None and int(t.text.replace("_", "")) == int(t.payload)
        elif t.kind in ("StrLiteral", "InterpStrLiteral"):
            q = 1 if t.kind == "StrLiteral" else 2
            # a literal that reaches the end of the text unterminated is a token too (the parser then fails at EOF)
            closed = len(t.text) > q and t.text[-1] == '"'
            ok = t.text[:q] == ('"' if q == 1 else '$"') and (closed or e >= n - 1)
        if not ok:
            raise Boundaries(f"{t.kind} {t.payload} at {t.start}..{t.end} delimits {t.text!r}")
    for a, b in zip(toks, toks[1:]):
        if a.e > b.s:
            raise Boundaries(f"tokens overlap: {a} {b}")
    return toks


def tokenize_many(srcs):
    """[(toks, err)] with boundaries; err may also be ("bounds", message)"""
    out = []
    for src, block in zip(srcs, core.batch("impl", "tok", srcs)):
        toks, err = parse_tok_block(block)
        try:
            locate(src, toks)
        except Boundaries as e:
            err = ("bounds", str(e))
        out.append((toks, err))
    return out


def kinds_of(block):
    """token stream with positions erased (one string per token / error line)"""
    out = []
    for line in block.split("\n"):
        if not line:
            continue
        f = line.split(" ")
        if f[0] == "T":
            out.append(" ".join(f[3:]))
        elif f[0] == "E":
            out.append("E " + f[1] + " " + " ".join(f[3:]))
        else:
            out.append(line)
    return out


# ------------------------------------------------------------------------------------------ layouts
def wordlike(text):
    return text[0].isascii() and (text[0].isalnum() or text[0] == "_")


def need_sep(a, b):
    """would the texts of two adjacent tokens lex differently when written without anything between them?"""
    if wordlike(a) and wordlike(b):
        return True
    if a in SYMBOL_TEXTS and any(s.startswith(a + b[0]) for s in SYMBOL_TEXTS):
        return True
    return False


COMMENT_TEXTS = ["", " c", " é€😀", " x := 1;", " \"", "# #", " \t\\", " ${", " a\r", "; print(0)", " }", " 中文 ß", " \\x41"]
INLINE_WS = [" ", " ", "  ", "\t", " \t ", "\r", "\r ", "    "]


class Layout:
    """a source split into token texts and the gaps around them:
         gaps[0] texts[0] gaps[1] texts[1] ... texts[n-1] tail
       `tail` is everything after the last token: trailing layout, or — when the lexer stopped at an error —
       the unlexed rest, kept verbatim.  A rewrite gives new texts / gaps; `render` returns the new source and
       the new start offset of every token and of the tail."""

    def __init__(self, src, toks, err=None):
        self.src = src
        self.toks = toks
        self.err = err
        self.texts = [t.text for t in toks]
        self.gaps = []
        p = 0
        for t in toks:
            self.gaps.append(src[p:t.s])
            p = t.e
        self.tail = src[p:]
        self.tail_start = p
        self.kinds = [t.kind for t in toks]

    def render(self, texts=None, gaps=None, tail=None):
        texts = self.texts if texts is None else texts
        gaps = self.gaps if gaps is None else gaps
        tail = self.tail if tail is None else tail
        parts = []
        starts = []
        n = 0
        for g, t in zip(gaps, texts):
            parts.append(g)
            n += len(g)
            starts.append(n)
            parts.append(t)
            n += len(t)
        parts.append(tail)
        return "".join(parts), starts, n

    # -------------------------------------------------------------- where a line break is admissible
    def break_ok_after(self, i):
        """a line break in the gap after token i (i = -1: before the first token) continues / is ignored"""
        if i < 0:
            return True
        return self.kinds[i] in CONTINUATION_KINDS or self.kinds[i] == "StmtEnd"

    # -------------------------------------------------------------- random admissible rewrite
    def random(self, rng, p_keep=0.35, hexes=True, seps=True, crlf=None, comments=True):
        n = len(self.texts)
        texts = list(self.texts)
        changed = [False] * n
        if crlf is None:
            crlf = rng.random() < 0.25
        # token texts: terminator choice, digit separators, \xHH
        for i, k in enumerate(self.kinds):
            if k == "StmtEnd":
                if rng.random() < 0.5:
                    texts[i] = rng.choice([";", "\n", "\n"])
            elif k == "IntLiteral" and seps and rng.random() < 0.3:
                texts[i] = int_separators(rng, texts[i])
                changed[i] = texts[i] != self.texts[i]
            elif hexes and rng.random() < 0.3 and (k == "StrLiteral" or (k == "InterpStrLiteral" and self.toks[i].payload.endswith("[]"))):
                texts[i] = hex_escapes(rng, texts[i])
                changed[i] = texts[i] != self.texts[i]
        gaps = []
        for i in range(n):
            left = texts[i - 1] if i > 0 else None
            right = texts[i]
            orig = self.gaps[i]
            before_semicolon = self.kinds[i] == "StmtEnd" and right == ";"
            before_newline = self.kinds[i] == "StmtEnd" and right == "\n"
            if rng.random() < p_keep and not (before_semicolon and "#" in orig):
                g = orig
            else:
                g = self.gen_gap(rng, i - 1, comments and not before_semicolon, before_newline, crlf)
            if left is not None and g == "" and need_sep(left, right):
                g = " "
            gaps.append(g)
        tail = self.tail
        if self.err is None and rng.random() < 0.5:
            # after the last token: blank lines, comments (also an unterminated last comment line)
            last_ok = n == 0 or self.kinds[-1] == "StmtEnd"
            if last_ok:
                tail = self.gen_gap(rng, n - 1, comments, False, crlf)
                if comments and rng.random() < 0.3:
                    tail += "#" + rng.choice(COMMENT_TEXTS).replace("\r", "")
        return texts, gaps, tail, changed

    def gen_gap(self, rng, left_i, comments, before_newline, crlf):
        """layout for the gap after token left_i"""
        multiline = self.break_ok_after(left_i) and rng.random() < 0.45
        out = []
        if multiline:
            repeated = left_i >= 0 and self.kinds[left_i] == "StmtEnd"
            for _ in range(rng.randrange(1, 4)):
                if rng.random() < 0.5:
                    out.append(rng.choice(INLINE_WS))
                if repeated and rng.random() < 0.2:
                    out.append(";")          # repeated terminator
                    if rng.random() < 0.5:
                        continue
                if comments and rng.random() < 0.35:
                    out.append("#" + rng.choice(COMMENT_TEXTS))
                out.append("\r\n" if crlf else "\n")
        if rng.random() < 0.6:
            out.append(rng.choice(INLINE_WS))
        if before_newline:
            if comments and rng.random() < 0.25:
                out.append("#" + rng.choice(COMMENT_TEXTS))
            if crlf:
                out.append("\r")
        return "".join(out)


def int_separators(rng, text):
    """insert `_` after digits of an integer literal (never before the first digit)"""
    out = [text[0]]
    for ch in text[1:]:
        if rng.random() < 0.4:
            out.append("_" * rng.randrange(1, 3))
        out.append(ch)
    if rng.random() < 0.3:
        out.append("_")
    return "".join(out)


def hex_escapes(rng, text, p=0.4):
    """write some ASCII characters of a slot-free literal (other than `" \\ $`) as `\\xHH`"""
    q = text.index('"')
    body = text[q + 1:-1]
    out = []
    i = 0
    while i < len(body):
        c = body[i]
        if c == "\\":
            k = 4 if body[i + 1:i + 2] == "x" else 2
            out.append(body[i:i + k])
            i += k
            continue
        if ord(c) < 0x80 and c not in '"\\$' and rng.random() < p:
            out.append(("\\x%02x" if rng.random() < 0.5 else "\\x%02X") % ord(c))
        else:
            out.append(c)
        i += 1
    return text[:q + 1] + "".join(out) + '"'


# ------------------------------------------------------------------------------------------ diagnostics
DIAG = re.compile(r"\A([^\n:]*):(\d+):(\d+): ")
TRACE = re.compile(r"^(  [^\n:]*):(\d+):(\d+): in '([^']*)'$", re.M)
BRACKET_POS = re.compile(r"(?<= at )\[(\d+):(\d+)\]")
ANYPOS = re.compile(r"(?:(?<=:)|(?<= ))(\d+):(\d+): ")


def diag_positions(stderr):
    """(first diagnostic position or None, [trace positions])"""
    m = DIAG.match(stderr)
    first = (int(m.group(2)), int(m.group(3))) if m else None
    return first, [(int(a), int(b)) for _, a, b, _ in TRACE.findall(stderr)]


class PosMap:
    """maps a position reported for the original source to the correspondingly moved position in a rewrite"""

    def __init__(self, lay, new_src, new_starts, new_tail_start, changed):
        self.lay = lay
        self.new_src = new_src
        self.new_starts = new_starts
        self.new_tail_start = new_tail_start
        self.changed = changed
        self.by_line = {}
        for i, t in enumerate(lay.toks):
            self.by_line.setdefault(t.start[0], []).append((t.start[1], i))
        self.ls = line_starts(lay.src)

    def map(self, l, c):
        """-> (l', c') or None when the reported position is not anchored to a token of the original"""
        lay = self.lay
        if lay.err is not None:
            o = off_of(self.ls, l, c, len(lay.src))
            if o is not None and o >= lay.tail_start and c > 0:
                return pos_of(self.new_src, self.new_tail_start + (o - lay.tail_start))
        cands = [(cc, i) for cc, i in self.by_line.get(l, []) if cc <= c]
        if not cands:
            return None
        cc, i = max(cands)
        d = c - cc
        if d and self.changed[i]:
            return None
        if lay.kinds[i] == "StmtEnd":
            # a terminator written as a newline reports (line+1, 0), a convention the property does not fix:
            # only `;` -> `;` is compared
            if lay.texts[i] != ";" or self.new_src[self.new_starts[i]] != ";" or d:
                return None
        nl, nc = pos_of(self.new_src, self.new_starts[i])
        return nl, nc + d

    def map_stderr(self, stderr):
        """rewrite the first position of the diagnostic line and of every stack-trace line; None if unmappable"""
        lines = stderr.split("\n")
        out = []
        for k, line in enumerate(lines):
            m = TRACE.match(line) if k > 0 else None
            if m:
                p = self.map(int(m.group(2)), int(m.group(3)))
                if p is None:
                    return None
                out.append(f"{m.group(1)}:{p[0]}:{p[1]}: in '{m.group(4)}'")
                continue
            if k == 0:
                # `<path>:<line>:<col>: message`, or (a wrapper the renderer does not know) `<path>:Name: ...: l:c: message`
                q = line.find(":") + 1
                m = ANYPOS.search(line, q)
                if m:
                    p = self.map(int(m.group(1)), int(m.group(2)))
                    if p is None:
                        return None
                    line = line[:m.start(1)] + f"{p[0]}:{p[1]}: " + line[m.end():]
            # positions quoted inside a message: `'a' is already declared at [1:6]` (builtins: [0:0])
            bad = []

            def sub(mm):
                l, c = int(mm.group(1)), int(mm.group(2))
                if (l, c) == (0, 0):
                    return mm.group(0)
                p = self.map(l, c)
                if p is None:
                    bad.append(1)
                    return mm.group(0)
                return f"[{p[0]}:{p[1]}]"
            line = BRACKET_POS.sub(sub, line)
            if bad:
                return None
            out.append(line)
        return "\n".join(out)


# ------------------------------------------------------------------------------------------ s-expressions of trees
_E_POS = re.compile(r"\(E \d+:\d+ ")
_AT_POS = re.compile(r" @\d+:\d+")


def erase_positions(dump):
    return _AT_POS.sub("", _E_POS.sub("(E ", dump))


def hexs(s):
    return "x" + s.encode("utf-8").hex()
