"""lib_objects.py — shared by props/C12.py, C13.py, C14.py.

* a Python reference for Seed values: `render` (the text `print` produces), `lit` (source text of a literal),
  `FuncV` (a function value, printed as `<function '…'>`), structural equality is Python's `==`;
* self-describing scripts: the first line is a comment `#@ <json>` holding the prediction made by the generator
  (stdout, exit status), so a replay needs nothing but the script;
* `run_stream`: legs B and C for a stream of such scripts.
"""
import json
import re

import core
import tie


# ---------------------------------------------------------------------------- reference values
class FuncV:
    """a function value; `name` is None for anonymous functions"""
    def __init__(self, name=None):
        self.name = name

    def __repr__(self):
        return f"FuncV({self.name!r})"


def key_order(k):
    """`BTreeMap<String, _>` order = byte-wise on UTF-8"""
    return k.encode("utf-8")


def indent(s):
    return s.replace("\n", "\n    ")


def render(v):
    """the text `print(v)` writes, without the final newline"""
    if v is None:
        return "<null>"
    if v is True:
        return "true"
    if v is False:
        return "false"
    if isinstance(v, int):
        return str(v)
    if isinstance(v, str):
        return v
    if isinstance(v, FuncV):
        return "<function 'None'>" if v.name is None else f"<function 'Some(\"{v.name}\")'>"
    if isinstance(v, (list, tuple)):
        return "[\n" + "".join("    " + indent(render(x)) + ",\n" for x in v) + "]"
    if isinstance(v, dict):
        return "{\n" + "".join(f"    \"{k}\": " + indent(render(v[k])) + ",\n" for k in sorted(v, key=key_order)) + "}"
    raise TypeError(repr(v))


def str_lit(s):
    out = []
    for ch in s:
        if ch == "\\":
            out.append("\\\\")
        elif ch == '"':
            out.append('\\"')
        elif ch == "$":
            out.append("\\$")
        elif ch == "\n":
            out.append("\\n")
        elif ch == "\r":
            out.append("\\r")
        else:
            out.append(ch)
    return '"' + "".join(out) + '"'


def lit(v, key_perm=None):
    """source text of a literal denoting v (dict entries in insertion order of the Python dict, or permuted by
    `key_perm`, a function list -> list)"""
    if v is None:
        return "null"
    if v is True:
        return "true"
    if v is False:
        return "false"
    if isinstance(v, int):
        return str(v) if v >= 0 else f"(0 - {-v})"
    if isinstance(v, str):
        return str_lit(v)
    if isinstance(v, (list, tuple)):
        return "[" + ", ".join(lit(x, key_perm) for x in v) + "]"
    if isinstance(v, dict):
        ks = list(v)
        if key_perm:
            ks = key_perm(ks)
        return "{" + ", ".join(f"{str_lit(k)}: {lit(v[k], key_perm)}" for k in ks) + "}"
    raise TypeError(repr(v))


IDENT = re.compile(r"\A[A-Za-z_][A-Za-z0-9_]*\Z")
KEYWORDS = {"break", "continue", "else", "false", "fn", "for", "if", "in", "null", "return", "true", "while"}


def is_ident(k):
    return bool(IDENT.match(k)) and k not in KEYWORDS


# ---------------------------------------------------------------------------- self-describing scripts
class Script:
    """accumulates statements and the predicted output"""
    def __init__(self):
        self.lines = []
        self.out = []          # predicted stdout, one entry per print
        self.failed = False    # a predicted reported error ends the script
        self.tags = []         # operation kinds, for the distribution
        self.why = ""          # the predicted failure

    def stmt(self, text):
        assert not self.failed
        self.lines.append(text)

    def expect(self, v):
        """a `print` of value v has been emitted"""
        self.out.append(render(v) + "\n")

    def expect_text(self, t):
        self.out.append(t + "\n")

    def fail(self, text, why):
        """the statement `text` is predicted to be a reported error"""
        self.lines.append(text)
        self.failed = True
        self.why = why

    def source(self, extra=None):
        pred = {"out": "".join(self.out), "status": "103" if self.failed else "0"}
        if self.failed:
            pred["why"] = self.why
            # line of the statement predicted to fail (line 1 is the prediction itself); informative only
            pred["line"] = 1 + sum(l.count("\n") + 1 for l in self.lines[:-1]) + 1
        if extra:
            pred.update(extra)
        return "#@ " + json.dumps(pred, ensure_ascii=True) + "\n" + "".join(l + "\n" for l in self.lines)


def prediction(src):
    first = src.split("\n", 1)[0]
    if not first.startswith("#@ "):
        return None
    try:
        return json.loads(first[3:])
    except ValueError:
        return None


def judge(src, r):
    """model-free verdict on one run: (ok, why).  The prediction travels in the script's first line."""
    p = prediction(src)
    if p is None:
        return True, "no prediction attached"
    if r["status"] not in ("0", "103"):
        return False, f"exit status {r['status']} (neither completed nor reported an error): {r['stderr'][:200]}"
    if p["status"] == "0":
        if r["status"] != "0":
            return False, f"predicted to complete, but a diagnostic was reported: {r['stderr'].strip()[:200]}"
        if r["stdout"] != p["out"]:
            return False, "output differs from the reference: " + first_diff(p["out"], r["stdout"])
        return True, ""
    if r["status"] != "103":
        return False, f"predicted a reported error ({p.get('why', '')}), but the run completed; output {r['stdout'][-120:]!r}"
    if r["stdout"] != p["out"]:
        return False, f"predicted error ({p.get('why', '')}) reported, but the output before it differs: " + \
            first_diff(p["out"], r["stdout"])
    if not r["stderr"].strip():
        return False, "exit status 103 without a diagnostic"
    return True, ""


def first_diff(exp, got):
    el, gl = exp.split("\n"), got.split("\n")
    for i, (a, b) in enumerate(zip(el, gl)):
        if a != b:
            return f"line {i + 1}: expected {a!r}, got {b!r}"
    return f"expected {len(el) - 1} lines, got {len(gl) - 1} lines (first extra: {(el[len(gl) - 1:] + gl[len(el) - 1:])[0]!r})"


def err_class(r):
    """coarse class of a diagnostic: message with numbers, quoted names and positions erased"""
    if r["status"] == "0":
        return "ok"
    m = r["stderr"].split("\n")[0]
    m = re.sub(r"^[^ ]*:\d+:\d+: ", "", m)
    m = re.sub(r"in '[^']*': ", "", m)
    m = re.sub(r"'[^']*'", "'_'", m)
    m = re.sub(r"\d+", "N", m)
    return m[:70]


def run_stream(ctx, label, scripts, model_ok, classify=None, max_reports=5, project=tie.proj_full):
    """legs B and C on one stream of self-describing scripts.
    classify(src, result) -> hashable non-triviality class (default: predicted status + error class)"""
    scripts = list(dict.fromkeys(scripts))
    if not scripts:
        return []
    impl, dis = tie.run(ctx, scripts, label, model_ok, project=project)
    bad = []
    for s, r in zip(scripts, impl):
        ok, why = judge(s, r)
        ec = err_class(r)
        ctx.dist(label + ":" + ("ok" if r["status"] == "0" else "reported-error" if r["status"] == "103" else "crash"))
        if r["status"] == "103":
            ctx.dist("diag:" + ec)
            p = prediction(s) or {}
            m = re.match(r"^[^ ]*?:(\d+):\d+: ", r["stderr"])
            if "line" in p and m:
                # not part of any verdict (positions are C18's subject): shows whether the error arose where predicted
                ctx.dist("diag-on-predicted-line" if int(m.group(1)) == p["line"] else "diag-on-another-line")
        ctx.nontrivial(classify(s, r) if classify else (label, ec))
        if not ok:
            bad.append((s, r, why))
    seen = set()
    explained = set()
    for s, r, why in sorted(bad, key=lambda t: len(t[0])):
        explained.add(s)
        key = (re.sub(r"\d+", "N", why)[:60], err_class(r))
        if key in seen or len(seen) >= max_reports:
            continue
        c = core.run_cli(s)
        ctx.cov["cli_reconfirmed"] += 1
        if judge(s, c)[0]:
            ctx.unproved("hook:run", "the batch hook and the command-line path differ", {"input": s, "hook": r, "cli": c})
            continue
        seen.add(key)
        small = shrink_script(s)
        c = core.run_cli(small)
        ctx.violation(judge(small, c)[1], small, {"cli": c, "stream": label, "failing_inputs_in_stream": len(bad),
                                                   "prediction": prediction(small)})
    rest = [d for d in dis if d[0] not in explained]
    tie.report_disagreements(ctx, rest, label)
    if scripts:
        i = len(scripts) // 3
        ctx.sample({"stream": label, "src": scripts[i][:400], "impl": {k: v[:200] for k, v in impl[i].items()}})
    return impl


def shrink_script(src):
    """scripts are short and carry their own prediction (which a removed line would invalidate): kept whole"""
    return src


def corpus_scripts(pid):
    """the fixed self-describing scripts of /verif/corpus/<pid> (documentation examples and hand-written edge cases)"""
    d = core.VERIF / "corpus" / pid
    return [f.read_text() for f in sorted(d.glob("*.sd"))] if d.exists() else []
