"""lib_idioms.py — small programs in the idiom of ordinary Seed code (swap by destructuring, Fibonacci by simultaneous
assignment, rotating a list, shifting a slice over itself, subtracting without blanks, a loop whose condition is an
interpolated literal, methods compared by identity, an object that refers to itself, …), each with the output the documented
semantics give, written out by hand (no model involved).  They are where "optimisations" of a special case first go wrong.

Every program is tagged with the properties whose statement it exercises; C01 (whole-program behaviour) runs all of them, each
other check runs its own.  IDIOMS: [(name, (property ids…), source, expected stdout, expected status, stderr must contain)]"""

L3 = "[\n    {},\n    {},\n    {},\n]\n"


def _l(*xs):
    return "[\n" + "".join(f"    {x},\n" for x in xs) + "]\n"


IDIOMS = [
    ("swap", ("C13", "C05"), "a := 1\nb := 2\n[a, b] = [b, a]\nprint(a)\nprint(b)\n", "2\n1\n", "0", ""),
    ("swap-three", ("C13",), "a := 1\nb := 2\nc := 3\n[a, b, c] = [c, a, b]\nprint([a, b, c])\n", _l(3, 1, 2), "0", ""),
    ("fibonacci-simultaneous", ("C13", "C06"), "x := 0\ny := 1\nfor i in 0 .. 10 {\n    [x, y] = [y, x + y]\n}\nprint(x)\n", "55\n", "0", ""),
    ("rotate-elements", ("C13", "C11"), 'xs := ["p", "q", "r"]\n[xs[0], xs[1], xs[2]] = [xs[1], xs[2], xs[0]]\nprint(xs)\n', _l("q", "r", "p"), "0", ""),
    ("swap-properties", ("C13", "C12"), 'o := {"a": 1, "b": 2}\n[o.a, o.b] = [o.b, o.a]\nprint(o.a)\nprint(o.b)\n', "2\n1\n", "0", ""),
    ("declare-from-outer", ("C13", "C04"), "n := 10\n{\n    [n, m] := [1, n + 1]\n    print(n)\n    print(m)\n}\nprint(n)\n", "1\n11\n10\n", "0", ""),
    ("declare-pair-reads-first", ("C13", "C20"), "[p, q] := [1, 2]\n[r, s] := [q, p]\nprint([r, s])\n", _l(2, 1), "0", ""),
    ("compact-subtraction", ("C08", "C06", "C09"),
     'xs := [20, 30]\ngrid := [[1], [7]]\nn := 5\no := {"k": 9}\nfn f(x) {\n    return x\n}\nprint(xs[0]-1)\nprint(xs[1] -1)\nprint(grid[1][0]-3)\nprint(n-1)\n'
     'print(f(3)-1)\nprint((n+1)-1)\nprint(o.k-1)\nprint("ab"->len()-1)\nprint(xs[0]--1)\nprint([n -1])\nprint([n, -1])\n',
     "19\n29\n4\n4\n2\n5\n8\n1\n21\n" + _l(4) + _l(5, -1), "0", ""),
    ("while-interpolated-condition", ("C07", "C15"),
     's := ""\npasses := 0\nwhile $"${s}" != "aaa" {\n    s += "a"\n    passes += 1\n    if passes == 10 {\n        break\n    }\n}\nprint(passes)\nprint(s)\n', "3\naaa\n", "0", ""),
    ("while-condition-call", ("C07",), "n := 0\nfn more() {\n    return n < 3\n}\nwhile more() {\n    n += 1\n}\nprint(n)\n", "3\n", "0", ""),
    ("while-literal-like-condition", ("C07",), 'xs := [1]\nc := 0\nwhile [xs..] == [1] {\n    xs = [2]\n    c += 1\n}\nprint(c)\nt := "a"\nd := 0\nwhile {"k": t}.k == "a" {\n    t = "b"\n    d += 1\n}\nprint(d)\n', "1\n1\n", "0", ""),
    ("for-collect-target", ("C07", "C13"), 'for [i, ..rest] in ["a", "b"] {\n    print(i)\n    print(rest)\n}\nfor [k, ..vs] in {"x": 1} {\n    print(k)\n    print(vs)\n}\n',
     "0\n" + _l("a") + "1\n" + _l("b") + "x\n" + _l(1), "0", ""),
    ("for-collect-only", ("C07", "C13"), 'for [..pair] in ["a"] {\n    print(pair)\n}\n', _l(0, "a"), "0", ""),
    ("opassign-key-evaluated-once", ("C12", "C14", "C06"),
     'keys := ["a", "b"]\ncalls := 0\nfn next_key() {\n    k := keys[calls % 2]\n    calls += 1\n    return k\n}\no := {"a": 1, "b": 10}\no[next_key()] += 5\nprint(o.a)\nprint(o.b)\nprint(calls)\n',
     "6\n10\n1\n", "0", ""),
    ("opassign-object-evaluated-once", ("C12", "C05"),
     'left := {"n": 1}\nright := {"n": 100}\npicks := 0\nfn pick() {\n    picks += 1\n    if picks % 2 == 1 {\n        return left\n    }\n    return right\n}\npick().n *= 3\nprint(left.n)\nprint(right.n)\nprint(picks)\n'
     'xs := [[1], [10]]\ni := 0\nfn nxt() {\n    i += 1\n    return i - 1\n}\nxs[nxt()][0] += 5\nprint(xs[0][0])\nprint(xs[1][0])\nprint(i)\n', "3\n100\n1\n6\n10\n1\n", "0", ""),
    ("object-refers-to-itself", ("C12", "C05"), 'o := {"n": 1}\no.me = o\nprint(o.me === o)\no.n = 2\nprint(o.me.n)\no["self"] = o\nprint(o["self"]["me"] === o)\n', "true\n2\ntrue\n", "0", ""),
    ("slice-shifted-over-itself", ("C11", "C05"), "xs := [1, 2, 3, 4, 5]\nxs[1:4] = xs[0:3]\nprint(xs)\nys := [1, 2, 3, 4, 5]\nys[0:3] = ys[2:5]\nprint(ys)\n", _l(1, 1, 2, 3, 5) + _l(3, 4, 5, 4, 5), "0", ""),
    ("whole-range-assign-needs-same-length", ("C11",), 'xs := [1, 2, 3]\nprint("before")\nxs[:] = [7, 8, 9, 10]\nprint(xs)\n', "before\n", "103", "4"),
    ("whole-range-assign", ("C11",), "xs := [1, 2, 3]\nys := xs\nxs[:] = [7, 8, 9]\nprint(ys)\nprint(ys === xs)\n", _l(7, 8, 9) + "true\n", "0", ""),
    ("pattern-binds-a-key-twice", ("C13", "C12"), 'o := {"p": {"x": 1, "y": 2}, "q": 3}\n{"p": whole, "p": {x, y}, ..rest} := o\nprint(x + y)\nprint(rest)\nprint({"p": whole, rest..} == o)\n',
     '3\n{\n    "q": 3,\n}\ntrue\n', "0", ""),
    ("discarding-pair-still-looks-up", ("C13", "C12"), 'o := {"name": "n"}\nprint("before")\n{"name": n, "colour": _} := o\nprint("after")\n', "before\n", "103", "colour"),
    ("empty-body-still-binds-parameters", ("C16", "C13", "C14"), 'fn on_point([x, y]) {\n}\nprint("calling")\non_point(5)\nprint("not reached")\n', "calling\n", "103", "int"),
    ("empty-body-still-binds-for-target", ("C16", "C07"), 'print("looping")\nfor [i, {name}] in [1, 2] {\n}\nprint("not reached")\n', "looping\n", "103", "int"),
    ("empty-body-still-counts-arguments", ("C14", "C16"), 'fn none() {\n}\nprint("calling")\nnone(1)\nprint("not reached")\n', "calling\n", "103", ""),
    ("empty-body-returns-null", ("C07", "C14"), "fn none(a, [b, c]) {\n}\nprint(none(1, [2, 3]))\n", "<null>\n", "0", ""),
    ("same-function-through-two-objects", ("C10", "C14"),
     'fn describe() {\n    return this.name\n}\na := {"name": "a", "describe": describe}\nb := {"name": "b", "describe": describe}\nprint(a.describe === describe)\nprint(a.describe === b.describe)\n'
     'print(a.describe !== b.describe)\nm := a.describe\nfs := [b.describe]\nprint(m === fs[0])\nprint(m())\nprint(fs[0]())\n', "true\ntrue\nfalse\ntrue\na\nb\n", "0", ""),
    ("underscore-parameter-positions", ("C14", "C13", "C20"), 'f := fn (_, item) {\n    return item\n}\nprint(f(0, "apple"))\ng := fn (a, _, c) {\n    return [a, c]\n}\nprint(g(1, 2, 3))\nfor [_, v] in ["pear"] {\n    print(v)\n}\n',
     "apple\n" + _l(1, 3) + "pear\n", "0", ""),
    ("closure-made-in-method-keeps-this", ("C14", "C04"),
     'o := {"name": "inner", "mk": fn () {\n    return fn () {\n        return this.name\n    }\n}}\nf := o.mk()\nprint(f())\nprint(f())\np := {"name": "outer", "run": fn (g) {\n    return g()\n}}\nprint(p.run(f))\n', "inner\ninner\ninner\n", "0", ""),
    ("slot-error-position-after-escape", ("C17", "C18"), 'print("start")\nprint($"pears: ${3 + 1} item(s)")\n', "start\n", "103", "t.sd:2:"),
    ("slot-error-line-after-escapes", ("C17", "C18"), 'print("start")\nprint($"pears:\\n\\n  ${3 + 1} item(s)")\n', "start\n", "103", "t.sd:2:"),
    ("slot-with-function-body", ("C15", "C09"), 'g := "h"\nprint($"<${ (fn(n) { r := g + n; return r; })("x") }>")\nprint($"<${ (fn(n) {\n    r := g + n\n    return r\n})("y") }>")\n', "<hx>\n<hy>\n", "0", ""),
    ("nested-interpolation-in-call", ("C15",), 'fn tag(t) {\n    return $"<${t}>"\n}\nwho := "w"\nprint($"hello ${tag(who)}!")\nprint($"a${$"b${$"c"}"}d")\nprint($"hello ${tag(who)}!" == ("hello " + tag(who) + "!"))\n', "hello <w>!\nabcd\ntrue\n", "0", ""),
    ("use-before-later-fn-in-block", ("C04", "C20"), 'fn label() {\n    return "outer"\n}\nfn run() {\n    print(label())\n    fn label() {\n        return "inner"\n    }\n    print(label())\n}\nrun()\nprint(label())\n', "outer\ninner\nouter\n", "0", ""),
    ("loop-scope-ends-at-break", ("C04", "C20", "C07"), 'tmp := "outer"\nwhile true {\n    tmp := "body"\n    if true {\n        break\n    }\n}\nprint(tmp)\nn := 0\nwhile n < 2 {\n    n += 1\n    t2 := n\n    if true {\n        continue\n    }\n}\nprint("after")\nprint(t2)\n',
     "outer\nafter\n", "103", "'t2' is not defined"),
    ("callee-uses-its-own-scopes", ("C05", "C04", "C20"), 'log := [0]\nfn bump() {\n    log[0] += 1\n    return log\n}\nfn caller(log) {\n    r := bump()\n    return r === log\n}\nmine := [100]\nprint(caller(mine))\nprint(log[0])\nprint(mine[0])\n', "false\n1\n100\n", "0", ""),
    ("call-result-as-operand-keeps-the-list", ("C05", "C11"), 'store := {"xs": [1, 2]}\nfn entries() {\n    return store.xs\n}\nys := entries() + [3]\nzs := [entries().., 4]\nprint(store.xs)\nprint(ys)\nprint(zs)\n', _l(1, 2) + _l(1, 2, 3) + _l(1, 2, 4), "0", ""),
    ("min-int-divided", ("C06", "C02", "C17"), 'fn low() {\n    return -9223372036854775807 - 1\n}\nprint("before")\nprint(low() / -1)\n', "before\n", "103", "t.sd:5:"),
    ("opassign-mod-zero", ("C06", "C02"), 'r := 7\nxs := [7]\no := {"k": 7}\nprint("before")\nr %= 0\n', "before\n", "103", "%"),
    ("opassign-mod-zero-element", ("C06", "C02"), 'xs := [7]\nprint("before")\nxs[0] %= 0\n', "before\n", "103", "%"),
    ("opassign-div-zero-property", ("C06", "C02"), 'o := {"k": 7}\nprint("before")\no.k /= 0\n', "before\n", "103", "/"),
    ("product-at-the-edge", ("C06", "C02"), 'print("before")\nprint(3037000499 * 3037000499)\nprint(3037000500 * 3037000500)\n', "before\n9223372030926249001\n", "103", "*"),
    ("product-of-32-bit-values", ("C06", "C02"), 'x := 4294967295\nprint("before")\nx *= 4294967295\n', "before\n", "103", "*"),
    ("comparison-names-its-operator", ("C16",), 'print("before")\nprint(3 >= "10")\n', "before\n", "103", "'>='"),
    ("ref-inequality-names-its-operator", ("C16", "C10"), 'print("before")\nprint({} !== [])\n', "before\n", "103", "'!=='"),
    ("less-equal-names-its-operator", ("C16",), 'print("before")\nprint([] <= 1)\n', "before\n", "103", "'<='"),
    ("error-in-opassign-rhs-is-located", ("C17", "C18"), 'fn price(x) {\n    return x + zz\n}\ntotal := 0\nprint("before")\ntotal += price(1)\n', "before\n", "103", "t.sd:2:16: in 'price':"),
    ("blank-line-in-printed-string", ("C19",), 'print(["a\\n\\nb"])\nprint({"k": "\\nx"})\n', '[\n    a\n    \n    b,\n]\n{\n    "k": \n    x,\n}\n', "0", ""),
    ("anonymous-function-prints-the-same", ("C19",), "f := fn () {\n    return 1\n}\nprint(f)\nprint([f])\n", None, "0", ""),
    ("keyword-named-property-by-index", ("C09", "C12"), 'r := {"in": 1, "if": 2}\nprint(r["in"] + r["if"])\n', "3\n", "0", ""),
    ("postfix-on-function-literal", ("C08", "C14"), 'print(fn (x) {\n    return x * 2\n}(21))\nprint(fn () {\n    return 1\n}->type())\nprint([fn () {\n    return 7\n}][0]())\n', "42\nfunc\n7\n", "0", ""),
    ("postfix-after-slice", ("C08", "C11"), 'xs := [10, 20, 30, 40]\ns := "hello world"\nprint(xs[1:][0])\nprint(s[6:]->len())\nprint(xs[1:][1:])\nprint(xs[:2][1])\nprint(s[0:5][1:3])\n', "20\n5\n" + _l(30, 40) + "20\nel\n", "0", ""),
    ("empty-body-still-rejects-duplicate-parameters", ("C20", "C13", "C14"), 'print("before")\n(fn (n, n) {\n})(1, 2)\nprint("not reached")\n', "before\n", "103", "'n' is"),
    ("empty-body-still-rejects-literal-target", ("C20", "C13", "C07"), 'print("before")\nfor 1 in [0] {\n}\nprint("not reached")\n', "before\n", "103", ""),
    ("self-assignment-of-undeclared-name", ("C20",), 'print("before")\nretries = retries\nprint("not reached")\n', "before\n", "103", "'retries' is not defined"),
    ("self-assignment-keeps-value", ("C20", "C05"), "x := [1]\ny := x\nx = x\nprint(x === y)\n", "true\n", "0", ""),
    ("counter-with-helper-in-its-scope", ("C20", "C04"), 'fn make_counter() {\n    n := 0\n    fn step() {\n        return 1\n    }\n    return fn () {\n        n += step()\n        return n\n    }\n}\nc := make_counter()\nprint(c())\nprint(c())\n'
     'get := null\n{\n    total := 10\n    fn tick() {\n        total += 1\n    }\n    tick()\n    get = fn () {\n        return total\n    }\n}\nprint(get())\n', "1\n2\n11\n", "0", ""),
    ("closures-made-in-a-while-keep-their-own-locals", ("C05", "C04", "C07"), 'getters := []\ni := 0\nwhile i < 2 {\n    row := [i]\n    getters += [fn () {\n        return row\n    }]\n    i += 1\n}\na := getters[0]()\nb := getters[1]()\nprint(a === b)\na[0] = 99\nprint(a)\nprint(b)\n',
     "false\n" + _l(99) + _l(1), "0", ""),
    ("closures-made-in-a-for-keep-their-own-locals", ("C05", "C04", "C07"), 'getters := []\nfor [i, v] in [10, 20] {\n    row := [v]\n    getters += [fn () {\n        return row\n    }]\n}\na := getters[0]()\nb := getters[1]()\nprint(a === b)\na[0] = 99\nprint(b)\n',
     "false\n" + _l(20), "0", ""),
    ("nested-loops-over-the-same-list", ("C07", "C05"), 'xs := ["a", "b", "c"]\nfor [i, x] in xs {\n    xs[i] = x + x\n    line := ""\n    for [j, y] in xs {\n        if j > i {\n            break\n        }\n        line = line + " " + y\n    }\n    print(x + ":" + line)\n}\n',
     "a: aa\nb: aa bb\nc: aa bb cc\n", "0", ""),
    ("inner-loop-takes-its-own-snapshot", ("C07",), 'xs := [1, 2]\nfor [i, x] in xs {\n    for [j, y] in xs {\n        if i == 0 && j == 0 {\n            xs[1] = 9\n        }\n        print([x, y])\n    }\n}\n',
     _l(1, 1) + _l(1, 2) + _l(2, 1) + _l(2, 9), "0", ""),
    ("collector-excludes-a-computed-key", ("C13", "C12"), 'fn without(obj, key) {\n    {key: _, ..rest} := obj\n    return rest\n}\nuser := {"name": "ann", "password": "x", "role": "admin"}\nprint(without(user, "password"))\nfield := "role"\n{field: role, ..others} := user\nprint(role)\nprint(others)\n',
     '{\n    "name": ann,\n    "role": admin,\n}\nadmin\n{\n    "name": ann,\n    "password": x,\n}\n', "0", ""),
    ("whole-slice-of-a-non-sequence", ("C16", "C11"), 'n := 5\nprint("before")\nprint(n[:])\n', "before\n", "103", "range-indexed"),
    ("whole-slice-of-an-object", ("C16", "C11"), 'o := {"a": 1}\nprint("before")\nprint(o[:])\n', "before\n", "103", "range-indexed"),
    ("whole-slice-of-null", ("C16",), 'print("before")\nx := null\nprint(x[:])\n', "before\n", "103", "range-indexed"),
    ("identity-of-builtins-is-a-type-error", ("C16", "C10"), 'p := print\nprint("before")\nprint(p === print)\n', "before\n", "103", "'==='"),
    ("list-pattern-against-a-string", ("C13", "C16"), 'print("before")\n[a, b] := "ab"\nprint(a)\n', "before\n", "103", "string"),
    ("rest-parameter-is-a-fresh-list", ("C13", "C05", "C14"), 'fn zero(..rest) {\n    for [i, v] in rest {\n        rest[i] = 0\n    }\n    return rest\n}\nnums := [1, 2, 3]\nr := zero(nums..)\nprint(nums)\nprint(r === nums)\n', _l(1, 2, 3) + "false\n", "0", ""),
    ("range-as-a-binding-target", ("C20", "C13", "C02"), 'print("before")\n1 .. 3 := [1, 2]\n', "before\n", "103", "range"),
    ("long-else-if-chain", ("C07",), 'fn grade(n) {\n    if n >= 90 {\n        return "A"\n    } else if n >= 80 {\n        return "B"\n    } else if n >= 70 {\n        return "C"\n    } else if n >= 60 {\n        return "D"\n    } else {\n        return "F"\n    }\n}\nprint(grade(95))\nprint(grade(85))\nprint(grade(75))\nprint(grade(65))\nprint(grade(5))\n', "A\nB\nC\nD\nF\n", "0", ""),
    ("subtracting-the-lowest-integer", ("C06", "C02"), 'low := -9223372036854775807 - 1\nprint(-1 - low)\nprint(0 - (low + 1))\n', "9223372036854775807\n9223372036854775807\n", "0", ""),
    ("print-order-with-mixed-case-keys", ("C12", "C19"), 'o := {"beta": 1, "Alpha": 2, "_id": 3, "Zeta": 4}\nfor [k, v] in o {\n    print(k)\n}\nprint(o)\n', 'Alpha\nZeta\n_id\nbeta\n{\n    "Alpha": 2,\n    "Zeta": 4,\n    "_id": 3,\n    "beta": 1,\n}\n', "0", ""),
    ("numeric-looking-keys-in-text-order", ("C12", "C07"), 'o := {"9": 1, "10": 2, "100": 3}\nfor [k, v] in o {\n    print(k)\n}\n', "10\n100\n9\n", "0", ""),
    ("sum-with-an-empty-list-is-a-new-list", ("C05", "C11"), 'defaults := [1]\nb := defaults + []\nc := [] + defaults\nprint(b === defaults)\nprint(c === defaults)\nb[0] = 5\nprint(defaults)\nxs := [2]\nys := xs\nxs += []\nprint(xs === ys)\n', "false\nfalse\n" + _l(1) + "false\n", "0", ""),
    ("empty-slot-is-a-reported-error", ("C03", "C02", "C17"), 'print("start")\nprint($"a${}b")\n', "start\n", "103", "t.sd:2:"),
    ("blank-slot-is-a-reported-error", ("C03", "C02"), 'print("start")\nprint($"a${ }b")\n', "start\n", "103", "t.sd:2:"),
]


def _big_literals():
    """object literals and spreads with more than a handful of entries and repeated keys: the later entry wins, at every size"""
    out = []
    for n in (8, 21, 24, 33, 64):
        keys = [f"k{i:02d}" for i in range(n)]
        first = ", ".join(f'"{k}": "old"' for k in keys)
        second = ", ".join(f'"{k}": "new"' for k in keys[1::2])
        want_o = "".join(("new" if i % 2 else "old") + "\n" for i in range(n))
        out.append((f"literal-later-entry-wins-{n}", ("C12",), f'o := {{{first}, {second}}}\nfor [k, v] in o {{\n    print(v)\n}}\n', want_o, "0", ""))
        out.append((f"spread-later-entry-wins-{n}", ("C12", "C13"), f'd := {{{first}}}\ne := {{{second}}}\no := {{d.., e..}}\nfor [k, v] in o {{\n    print(v)\n}}\np := {{e.., d..}}\nprint(p.k01)\nprint(p == d)\n',
                    want_o + "old\ntrue\n", "0", ""))
    return out


IDIOMS += _big_literals()


def all_idioms():
    """IDIOMS plus the lists of the further files lib_idioms_*.py (same format), by name (a later duplicate is dropped)"""
    import glob
    import importlib
    import os
    out, seen = [], set()
    here = os.path.dirname(os.path.abspath(__file__))
    mods = sorted(os.path.basename(f)[:-3] for f in glob.glob(os.path.join(here, "lib_idioms_*.py")))
    lists = [IDIOMS]
    for m in mods:
        try:
            lists.append(list(importlib.import_module(m).MORE))
        except Exception:
            continue
    for lst in lists:
        for c in lst:
            if len(c) == 6 and c[0] not in seen:
                seen.add(c[0])
                out.append(c)
    return out


def run(ctx, core, pid):
    """run the idioms tagged with `pid` (all of them for C01) on the implementation, the failures again through the plain
    command line; an anonymous function's rendering is only required to be the same on every run"""
    cs = [c for c in all_idioms() if pid == "C01" or pid in c[1]]
    rs = core.run_batch("impl", [c[2] for c in cs], path="t.sd")
    ctx.count("idioms:run", len(cs))
    reported = 0

    def bad(c, r):
        name, _, src, out, st, must = c
        if out is None:
            return None if r["status"] == st else f"status {r['status']}"
        if (r["stdout"], r["status"]) != (out, st):
            return f"expected stdout {out!r} and status {st}, got stdout {r['stdout']!r}, status {r['status']}, stderr {r['stderr'][:200]!r}"
        if must and must not in r["stderr"]:
            return f"the diagnostic does not contain {must!r}: {r['stderr'][:200]!r}"
        return None
    for c, r in zip(cs, rs):
        ctx.nontrivial(("idiom", c[0]))
        ctx.dist("idioms:" + ("ok" if c[4] == "0" else "diagnostic"))
        why = bad(c, r)
        if why is None and c[3] is None:
            outs = {core.run_cli(c[2])["stdout"] for _ in range(4)}
            if len(outs) > 1:
                why = f"printed differently on repeated runs: {sorted(outs)[:2]}"
        if why is None or reported >= 4:
            continue
        r2 = core.run_cli(c[2])
        why2 = bad(c, r2) if c[3] is not None else why
        if why2 is None:
            continue
        reported += 1
        ctx.violation(f"an everyday idiom ({c[0]}) does not behave as documented: {why2}", c[2], {"cli": r2, "idiom": c[0], "properties": list(c[1])})
    if cs:
        ctx.sample({"stream": "idioms", "idiom": cs[0][0], "src": cs[0][2], "expected": cs[0][3]})
