"""core.py — building, running both sides in batch, framing.  Standard library only."""
import concurrent.futures as cf
import hashlib
import json
import os
import random
import re
import subprocess
import sys
import tempfile
import time
from pathlib import Path

VERIF = Path(__file__).resolve().parent.parent
REPO = Path(os.environ.get("SEED_REPO", "/repo"))
BUILD = VERIF / ".build"
TARGET = BUILD / "target"
SEED_BIN = Path(os.environ["VERIF_SEED_BIN"]) if os.environ.get("VERIF_SEED_BIN") else TARGET / "debug" / "seed"
LEAN_DIR = VERIF / "lean"
MODEL_BIN = LEAN_DIR / ".lake" / "build" / "bin" / "seedmodel"
NPROC = min(16, os.cpu_count() or 4)
CASE_LIMIT_MS = 2500      # per-script limit of the implementation's batch runner (a script of these streams runs in < 50 ms)


def _limits():
    """address-space cap for child processes: a runaway case must not take the machine down"""
    import resource
    resource.setrlimit(resource.RLIMIT_AS, (6 << 30, 6 << 30))


class BuildError(Exception):
    def __init__(self, stage, log):
        super().__init__(f"{stage} failed")
        self.stage = stage
        self.log = log


def run_cmd(cmd, cwd=None, env=None, timeout=None, input=None):
    e = dict(os.environ)
    e.update({"CARGO_NET_OFFLINE": "true"})
    if env:
        e.update(env)
    return subprocess.run(cmd, cwd=cwd, env=e, stdout=subprocess.PIPE, stderr=subprocess.STDOUT,
                          timeout=timeout, input=input)


def build_impl():
    """cargo build of /repo's *current working tree* with hooks on, into /verif/.build/target."""
    BUILD.mkdir(exist_ok=True)
    if os.environ.get("VERIF_SEED_BIN"):
        return "(using the binary given in VERIF_SEED_BIN: coverage measurement only, never for a registered check)"
    import fcntl
    with open(BUILD / "cargo.lock", "w") as lk:
        fcntl.flock(lk, fcntl.LOCK_EX)
        r = run_cmd(["cargo", "build", "--offline", "--target-dir", str(TARGET)], cwd=REPO,
                    env={"RUSTFLAGS": "--cfg seed_verif"})
    if r.returncode != 0:
        raise BuildError("cargo build (hooks on)", r.stdout.decode(errors="replace"))
    return r.stdout.decode(errors="replace")


def extract_tables():
    out = LEAN_DIR / "SeedModel" / "Generated.lean"
    r = run_cmd([sys.executable, str(VERIF / "tools" / "extract.py"), str(REPO), str(out), "--json",
                 str(BUILD / "tables.json")])
    if r.returncode != 0:
        raise BuildError("extract", r.stdout.decode(errors="replace"))
    return json.loads((BUILD / "tables.json").read_text())


def lake_build(targets):
    import fcntl
    BUILD.mkdir(exist_ok=True)
    with open(BUILD / "lake.lock", "w") as lk:
        fcntl.flock(lk, fcntl.LOCK_EX)
        r = run_cmd(["lake", "build"] + list(targets), cwd=LEAN_DIR)
    return r.returncode, r.stdout.decode(errors="replace")


def hexsrc(s):
    if isinstance(s, str):
        s = s.encode("utf-8")
    return s.hex()


def _chunks(xs, n):
    k = max(1, (len(xs) + n - 1) // n)
    return [xs[i:i + k] for i in range(0, len(xs), k)]


def _run_blocks(cmd, sources, timeout):
    """feed hex lines, split the output into END-terminated blocks; one block per source.  A source on which the
    process hangs or dies is marked (`DIED …`) and the rest of the chunk continues after it."""
    res = []
    start = 0
    while start < len(sources):
        part = sources[start:]
        inp = "".join(hexsrc(s) + "\n" for s in part).encode()
        budget = max(6.0, min(timeout, 3.0 + 0.02 * len(part)))
        try:
            p = subprocess.run(cmd, input=inp, stdout=subprocess.PIPE, stderr=subprocess.PIPE, timeout=budget,
                               preexec_fn=_limits)
            out = p.stdout.decode("utf-8", errors="replace")
            rc = p.returncode
        except subprocess.TimeoutExpired as e:
            out = (e.stdout or b"").decode("utf-8", errors="replace")
            rc = "timeout"
        blocks = out.split("END\n")
        blocks.pop()
        blocks = blocks[:len(part)]
        res += blocks
        if len(blocks) == len(part):
            break
        if blocks and blocks[-1] == "TIMEOUT\n" and rc == 0:
            start += len(blocks)      # the hook's watchdog reported the case and ended the process: resume after it
            continue
        res.append(f"DIED {rc}\n")
        start += len(blocks) + 1
    return res


def batch(side, mode, sources, timeout=600):
    """side: 'impl' or 'model'; mode: 'tok' | 'ast' | 'astexpr'.  Returns one text block per source."""
    if not sources:
        return []
    if side == "impl":
        flag = {"tok": "--verif-tokens", "ast": "--verif-ast", "astexpr": "--verif-ast-expr"}[mode]
        cmd = [str(SEED_BIN), flag, str(CASE_LIMIT_MS)]
    else:
        cmd = [str(MODEL_BIN), mode]
    parts = _chunks(list(sources), NPROC)
    with cf.ThreadPoolExecutor(max_workers=NPROC) as ex:
        results = list(ex.map(lambda part: _run_blocks(cmd, part, timeout), parts))
    out = []
    for r in results:
        out.extend(r)
    return out


# ---------------------------------------------------------------------------- run level
def _parse_run(out, nonce, n):
    """split the framed output of a run batch into per-case (stdout, status, stderr)"""
    res = []
    pos = 0
    for i in range(n):
        b = f"BEGIN {nonce} {i}\n"
        e = f"END {nonce} {i}\n"
        bi = out.find(b, pos)
        if bi < 0:
            break
        ei = out.find(e, bi)
        if ei < 0:
            break
        body = out[bi + len(b):ei]
        si = body.rfind(f"STATUS {nonce} ")
        if si < 0:
            break
        stdout = body[:si]
        # only the STATUS line itself: a program that is still printing when the hook's watchdog reports it can get
        # further lines in between the watchdog's STATUS and END lines
        st = body[si:].split("\n", 1)[0].strip().split(" ")
        status = st[2] if len(st) > 2 else "died:format"
        try:
            msg = bytes.fromhex(st[3][1:]).decode("utf-8", errors="replace") if len(st) > 3 else ""
        except ValueError:
            msg = ""
        res.append({"stdout": stdout, "status": status, "stderr": msg})
        pos = ei + len(e)
    return res


def _run_cases(cmd_fn, sources, timeout):
    """run a chunk; a case that hangs or kills the process is marked and the rest of the chunk continues after it"""
    res = []
    start = 0
    while start < len(sources):
        part = sources[start:]
        nonce = "%016x" % random.getrandbits(64)
        cmd = cmd_fn(nonce)
        inp = "".join(hexsrc(s) + "\n" for s in part).encode()
        budget = max(6.0, min(timeout, 3.0 + 0.05 * len(part)))
        try:
            p = subprocess.run(cmd, input=inp, stdout=subprocess.PIPE, stderr=subprocess.PIPE, timeout=budget,
                               preexec_fn=_limits)
            out = p.stdout.decode("utf-8", errors="replace")
            rc = p.returncode
        except subprocess.TimeoutExpired as e:
            out = (e.stdout or b"").decode("utf-8", errors="replace")
            rc = "timeout"
        got = _parse_run(out, nonce, len(part))
        res += got
        if len(got) == len(part):
            break
        if got and got[-1]["status"] == "timeout" and rc == 0:
            # the hook's own watchdog reported the case and ended the process: resume with the next case
            start += len(got)
            continue
        # the case after the last complete one hung (rc == "timeout") or took the process down
        res.append({"stdout": "", "status": "timeout" if rc == "timeout" else f"died:{rc}", "stderr": ""})
        start += len(got) + 1
    return res


def run_batch(side, sources, path="t.sd", fuel=2000000, timeout=120):
    if not sources:
        return []
    if side == "impl":
        cmd_fn = lambda nonce: [str(SEED_BIN), "--verif-run", nonce, path, str(CASE_LIMIT_MS)]
    else:
        cmd_fn = lambda nonce: [str(MODEL_BIN), "run", nonce, path, str(fuel)]
    parts = _chunks(list(sources), NPROC)
    with cf.ThreadPoolExecutor(max_workers=NPROC) as ex:
        results = list(ex.map(lambda part: _run_cases(cmd_fn, part, timeout), parts))
    out = []
    for r in results:
        out.extend(r)
    return out


def run_cli(source, path="t.sd", timeout=10, env=None, cwd=None):
    """the unmodified command-line path: write the script, run `seed <path>`"""
    d = tempfile.mkdtemp(prefix="seedcli", dir=str(BUILD))
    try:
        fp = Path(d) / path
        fp.parent.mkdir(parents=True, exist_ok=True)
        fp.write_bytes(source.encode("utf-8") if isinstance(source, str) else source)
        try:
            p = subprocess.run([str(SEED_BIN), path], cwd=cwd or d, stdout=subprocess.PIPE, stderr=subprocess.PIPE,
                               timeout=timeout, env=env)
            return {"stdout": p.stdout.decode("utf-8", errors="replace"), "status": str(p.returncode),
                    "stderr": p.stderr.decode("utf-8", errors="replace")}
        except subprocess.TimeoutExpired:
            return {"stdout": "", "status": "timeout", "stderr": ""}
    finally:
        import shutil
        shutil.rmtree(d, ignore_errors=True)


def cli_batch(sources, path="t.sd", timeout=10, env=None):
    """many runs through the unmodified command-line path, in parallel; one result dict per source"""
    if not sources:
        return []
    root = Path(tempfile.mkdtemp(prefix="clib", dir=str(BUILD)))
    try:
        def one(i_src):
            i, src = i_src
            d = root / str(i)
            d.mkdir()
            fp = d / path
            fp.write_bytes(src.encode("utf-8") if isinstance(src, str) else src)
            try:
                p = subprocess.run([str(SEED_BIN), path], cwd=str(d), stdout=subprocess.PIPE, stderr=subprocess.PIPE,
                                   timeout=timeout, env=env, stdin=subprocess.DEVNULL)
                return {"stdout": p.stdout.decode("utf-8", errors="replace"), "status": str(p.returncode),
                        "stderr": p.stderr.decode("utf-8", errors="replace")}
            except subprocess.TimeoutExpired:
                return {"stdout": "", "status": "timeout", "stderr": ""}
        with cf.ThreadPoolExecutor(max_workers=NPROC) as ex:
            return list(ex.map(one, enumerate(sources)))
    finally:
        import shutil
        shutil.rmtree(root, ignore_errors=True)
