"""lib_c07plan.py — a plan language for C07's streams: a plan is a small tree (tuples) that is rendered to Seed source and,
independently, interpreted here in Python to predict the printed trace and the exit status.  No model involved.

statements
    ("print", text)                       print("text")
    ("printv", var)                       print(var)                (an integer counter, or the string bound by a `for`)
    ("let", var, n)                       var := n
    ("inc", var)                          var += 1
    ("if", [(cond, body), ...], else)     if / else if / else       (else: a body or None)
    ("while", cond, body)
    ("for", kvar, vvar, iterable, body)   for [kvar, vvar] in …     iterable: ("range", a, b) | ("list", [ints]) | ("str", text) | ("obj", [(key, int)])
    ("block", body)                       { … }
    ("break",) ("continue",) ("return", expr)
    ("call", fname, body, resvar)         fn fname() { body }  resvar := fname()  print(resvar)
conditions
    ("lit", bool) | ("par", cond) | ("cmp", var, op, n) | ("t", tag, cond)   — t(tag, b) prints its tag and returns b
expressions
    ("int", n) | ("var", name) | ("add", name, n)

Names are unique per declaration site (the generators see to that), so a flat environment is an exact reference: no plan
relies on shadowing.  A jump that reaches the edge of a call or of the program as the wrong kind is a reported error (103),
with everything printed before it kept."""

PRELUDE = "fn t(tag, b) {\n    print(tag)\n    return b\n}\nprint(\"start\")\n"


class _Jump(Exception):
    def __init__(self, kind, value=None):
        self.kind = kind
        self.value = value


class _Err(Exception):
    pass


class NonTerminating(Exception):
    pass


# ------------------------------------------------------------------------------------------------ rendering
def _cond(c):
    k = c[0]
    if k == "lit":
        return "true" if c[1] else "false"
    if k == "par":
        return "(" + _cond(c[1]) + ")"
    if k == "cmp":
        return f"{c[1]} {c[2]} {c[3]}"
    if k == "t":
        return f't("{c[1]}", {_cond(c[2])})'
    raise ValueError(c)


def _expr(e):
    if e[0] == "int":
        return str(e[1])
    if e[0] == "var":
        return e[1]
    if e[0] == "add":
        return f"{e[1]} + {e[2]}"
    raise ValueError(e)


def _iterable(it):
    k = it[0]
    if k == "range":
        return f"{it[1]} .. {it[2]}"
    if k == "list":
        return "[" + ", ".join(str(x) for x in it[1]) + "]"
    if k == "str":
        return '"' + it[1] + '"'
    if k == "obj":
        return "{" + ", ".join(f'"{a}": {b}' for a, b in it[1]) + "}"
    raise ValueError(it)


def render(body, depth=0):
    ind = "    " * depth
    out = []
    for s in body:
        k = s[0]
        if k == "print":
            out.append(f'{ind}print("{s[1]}")')
        elif k == "printv":
            out.append(f"{ind}print({s[1]})")
        elif k == "let":
            out.append(f"{ind}{s[1]} := {s[2]}")
        elif k == "inc":
            out.append(f"{ind}{s[1]} += 1")
        elif k == "if":
            for j, (c, b) in enumerate(s[1]):
                out.append(f'{ind}{"if" if j == 0 else "} else if"} {_cond(c)} {{')
                out += render(b, depth + 1)
            if s[2] is not None:
                out.append(ind + "} else {")
                out += render(s[2], depth + 1)
            out.append(ind + "}")
        elif k == "while":
            out.append(f"{ind}while {_cond(s[1])} {{")
            out += render(s[2], depth + 1)
            out.append(ind + "}")
        elif k == "for":
            out.append(f"{ind}for [{s[1]}, {s[2]}] in {_iterable(s[3])} {{")
            out += render(s[4], depth + 1)
            out.append(ind + "}")
        elif k == "block":
            out.append(ind + "{")
            out += render(s[1], depth + 1)
            out.append(ind + "}")
        elif k == "break" or k == "continue":
            out.append(ind + k)
        elif k == "return":
            out.append(f"{ind}return {_expr(s[1])}")
        elif k == "call":
            out.append(f"{ind}fn {s[1]}() {{")
            out += render(s[2], depth + 1)
            out.append(ind + "}")
            out.append(f"{ind}{s[3]} := {s[1]}()")
            out.append(f"{ind}print({s[3]})")
        else:
            raise ValueError(s)
    return out


def source(body):
    return PRELUDE + "\n".join(render(body)) + '\nprint("end")\n'


# ------------------------------------------------------------------------------------------------ reference interpreter
_OPS = {"<": lambda a, b: a < b, "<=": lambda a, b: a <= b, ">": lambda a, b: a > b, ">=": lambda a, b: a >= b,
        "==": lambda a, b: a == b, "!=": lambda a, b: a != b}


class _Run:
    def __init__(self, limit):
        self.out = []
        self.env = {}
        self.steps = 0
        self.limit = limit

    def tick(self):
        self.steps += 1
        if self.steps > self.limit:
            raise NonTerminating()

    def cond(self, c):
        k = c[0]
        if k == "lit":
            return c[1]
        if k == "par":
            return self.cond(c[1])
        if k == "cmp":
            return _OPS[c[2]](self.env[c[1]], c[3])
        if k == "t":
            self.out.append(c[1])
            return self.cond(c[2])
        raise ValueError(c)

    def expr(self, e):
        if e[0] == "int":
            return e[1]
        if e[0] == "var":
            return self.env[e[1]]
        return self.env[e[1]] + e[2]

    def pairs(self, it):
        k = it[0]
        if k == "range":
            return [(j, v) for j, v in enumerate(range(it[1], it[2]))]
        if k == "list":
            return list(enumerate(it[1]))
        if k == "str":
            return [(j, ch) for j, ch in enumerate(it[1])]          # the generators use ASCII text here
        return sorted(it[1], key=lambda kv: kv[0].encode())

    def body(self, b):
        for s in b:
            self.stmt(s)

    def stmt(self, s):
        self.tick()
        k = s[0]
        if k == "print":
            self.out.append(s[1])
        elif k == "printv":
            self.out.append(str(self.env[s[1]]))
        elif k == "let":
            self.env[s[1]] = s[2]
        elif k == "inc":
            self.env[s[1]] += 1
        elif k == "if":
            for c, b in s[1]:
                if self.cond(c):
                    self.body(b)
                    return
            if s[2] is not None:
                self.body(s[2])
        elif k == "while":
            while True:
                self.tick()
                if not self.cond(s[1]):
                    break
                try:
                    self.body(s[2])
                except _Jump as j:
                    if j.kind == "break":
                        break
                    if j.kind != "continue":
                        raise
        elif k == "for":
            for kk, vv in self.pairs(s[3]):
                self.tick()
                self.env[s[1]] = kk
                self.env[s[2]] = vv
                try:
                    self.body(s[4])
                except _Jump as j:
                    if j.kind == "break":
                        break
                    if j.kind != "continue":
                        raise
        elif k == "block":
            self.body(s[1])
        elif k == "break" or k == "continue":
            raise _Jump(k)
        elif k == "return":
            raise _Jump("return", self.expr(s[1]))
        elif k == "call":
            try:
                self.body(s[2])
                v = "<null>"
            except _Jump as j:
                if j.kind != "return":
                    raise _Err()
                v = str(j.value)
            self.env[s[3]] = v
            self.out.append(v)
        else:
            raise ValueError(s)


def predict(body, limit=4000):
    """(stdout, status) of source(body); raises NonTerminating when the plan does not end within `limit` steps"""
    r = _Run(limit)
    r.out.append("start")
    status = "0"
    try:
        r.body(body)
        r.out.append("end")
    except (_Jump, _Err):
        status = "103"
    return "".join(l + "\n" for l in r.out), status


# ------------------------------------------------------------------------------------------------ exit shapes
POSITIONS = ["blk", "then", "then0", "else", "elif", "elif0", "elifelse"]
LOOPS = ["wtrue", "wpar", "wt", "wlt", "forr", "forl", "fors", "foro"]
UNBOUNDED = ("wtrue", "wpar", "wt")
LEAVES = ["break", "return", "cont-break", "cont-return", "continue", "none"]
WRAPPERS = ["top", "fn", "outer", "inif", "inblock", "outerfn"]


def _position(kind, reach, miss, body, uid):
    """one construct that runs `body` when `reach` holds (`miss` is its negation) and prints "noN" otherwise"""
    uid[0] += 1
    n = uid[0]
    no = [("print", f"no{n}")]
    never = ("t", f"f{n}", ("lit", False))
    if kind == "blk":
        return [("block", body)]
    if kind == "then":
        return [("if", [(reach, body)], no)]
    if kind == "then0":
        return [("if", [(reach, body)], None)]
    if kind == "else":
        return [("if", [(miss, no)], body)]
    if kind == "elif":
        return [("if", [(never, no), (reach, body)], no)]
    if kind == "elif0":
        return [("if", [(never, no), (reach, body)], None)]
    if kind == "elifelse":
        return [("if", [(never, no), (miss, no)], body)]
    raise ValueError(kind)


def _chain(chain, reach, miss, leaf, uid):
    body = leaf
    for kind in reversed(chain):
        body = _position(kind, reach, miss, body, uid)
    return body


def exit_shape(loop, chain, leaf, wrapper):
    """a loop whose body is left by a jump that sits at the end of `chain` (positions in blocks / if arms, guarded by
    conditions on the pass counter), statements after the chain in the body and after the loop, inside `wrapper`"""
    uid = [0]
    i = "i"
    first, second = {"break": ("break", None), "return": ("return", None), "cont-break": ("continue", "break"),
                     "cont-return": ("continue", "return"), "continue": ("continue", None), "none": (None, None)}[leaf]

    def jump(kind, tag):
        ss = [("print", "in" + tag)]
        if kind == "return":
            ss.append(("return", ("var", i)))
        elif kind:
            ss.append((kind,))
        ss.append(("print", "dead" + tag if kind else "on" + tag))
        return ss
    body = [("inc", i), ("printv", i)]
    if second is None:
        body += _chain(chain, ("cmp", i, ">=", 3), ("cmp", i, "<", 3), jump(first, "A"), uid)
    else:
        body += _chain(chain, ("cmp", i, "==", 2), ("cmp", i, "!=", 2), jump(first, "A"), uid)
        body.append(("print", "mid"))
        body += _chain(chain, ("cmp", i, ">=", 4), ("cmp", i, "<", 4), jump(second, "B"), uid)
    body.append(("print", "tail"))
    head = {"wtrue": ("lit", True), "wpar": ("par", ("lit", True)), "wt": ("t", "w", ("lit", True)), "wlt": ("cmp", i, "<", 5)}
    if loop in head:
        lp = ("while", head[loop], body)
    else:
        it = {"forr": ("range", 0, 5), "forl": ("list", [7, 8, 9, 10, 11]), "fors": ("str", "abcde"),
              "foro": ("obj", [("c", 1), ("a", 2), ("e", 3), ("b", 4), ("d", 5)])}[loop]
        lp = ("for", "k", "v", it, [("printv", "v")] + body)
    core_ = [("let", i, 0), lp, ("print", "after"), ("printv", i)]
    if wrapper == "top":
        return core_
    if wrapper == "fn":
        return [("call", "f", core_ + [("return", ("add", i, 100))], "r"), ("print", "post")]
    if wrapper == "outer":
        return [("for", "ko", "vo", ("list", [1, 2]), [("printv", "vo")] + core_ + [("print", "oend")]), ("print", "post")]
    if wrapper == "inif":
        return [("if", [(("t", "c", ("lit", True)), core_ + [("print", "iend")])], [("print", "noc")]), ("print", "post")]
    if wrapper == "inblock":
        return [("block", core_ + [("print", "bend")]), ("print", "post")]
    if wrapper == "outerfn":
        return [("for", "ko", "vo", ("list", [1, 2]), [("printv", "vo"), ("call", "f", core_ + [("return", ("add", i, 100))], "r"),
                                                      ("print", "oend")]), ("print", "post")]
    raise ValueError(wrapper)


def exit_shape_plans(max_depth, loops=LOOPS, wrappers=WRAPPERS):
    import itertools
    for d in range(1, max_depth + 1):
        for chain in itertools.product(POSITIONS, repeat=d):
            for loop in loops:
                for leaf in LEAVES:
                    if loop in UNBOUNDED and leaf in ("continue", "none"):
                        continue                      # nothing would ever leave the loop
                    for w in wrappers:
                        yield (loop, chain, leaf, w)


# ------------------------------------------------------------------------------------------------ random plans
def random_plan(rng, max_depth=4):
    """a random nesting of every construct with jumps at random positions; conditions look at the pass counters of the
    enclosing loops, so the same jump site is passed by on some passes and taken on others.  The caller discards the plans
    that `predict` finds non-terminating."""
    uid = [0]

    def fresh(p):
        uid[0] += 1
        return f"{p}{uid[0]}"

    def cond(counters):
        r = rng.random()
        if counters and r < 0.7:
            c = ("cmp", rng.choice(counters), rng.choice(["<", "<=", ">", ">=", "==", "!="]), rng.randint(0, 4))
        else:
            c = ("lit", rng.random() < 0.5)
        r = rng.random()
        if r < 0.3:
            c = ("t", fresh("c"), c)
        elif r < 0.4:
            c = ("par", c)
        return c

    def block(depth, counters, in_loop, in_fn):
        ss = []
        for _ in range(rng.choice([1, 1, 2, 2, 3])):
            ss += stmt(depth, counters, in_loop, in_fn)
        opts = (["break", "continue"] * 2 if in_loop else []) + (["return"] * 3 if in_fn else [])
        if rng.random() < 0.03:
            opts = ["break", "continue", "return"]        # also where it has no target: a reported error
        if opts and rng.random() < 0.5:
            j = rng.choice(opts)
            ss.append(("return", rng.choice([("int", 7)] + [("var", c) for c in counters])) if j == "return" else (j,))
            if rng.random() < 0.4:
                ss.append(("print", fresh("dead")))
        return ss

    def stmt(depth, counters, in_loop, in_fn):
        kinds = ["print"] * (2 + depth)
        if depth < max_depth:
            kinds += ["if"] * 4 + ["while"] * 2 + ["for"] * 2 + ["block"] * 2 + ["call"]
        k = rng.choice(kinds)
        if k == "print":
            return [("print", fresh("p"))]
        if k == "if":
            arms = [(cond(counters), block(depth + 1, counters, in_loop, in_fn)) for _ in range(rng.randint(1, 3))]
            els = block(depth + 1, counters, in_loop, in_fn) if rng.random() < 0.6 else None
            return [("if", arms, els)]
        if k == "block":
            return [("block", block(depth + 1, counters, in_loop, in_fn))]
        if k == "while":
            n = fresh("n")
            r = rng.random()
            c = ("lit", True) if r < 0.4 else ("par", ("lit", True)) if r < 0.5 else ("cmp", n, "<", rng.randint(1, 4))
            if rng.random() < 0.25:
                c = ("t", fresh("w"), c)
            return [("let", n, 0), ("while", c, [("inc", n)] + block(depth + 1, counters + [n], True, in_fn)), ("print", fresh("a"))]
        if k == "for":
            n = fresh("n")
            it = rng.choice([("range", 0, rng.randint(0, 4)), ("list", [5, 6, 7][:rng.randint(0, 3)]), ("str", "xyz"[:rng.randint(0, 3)]),
                             ("obj", [("q", 1), ("p", 2), ("r", 3)][:rng.randint(0, 3)])])
            kv, vv = fresh("k"), fresh("v")
            return [("let", n, 0), ("for", kv, vv, it, [("inc", n), ("printv", rng.choice([kv, vv]))] + block(depth + 1, counters + [n], True, in_fn)),
                    ("print", fresh("a"))]
        f = fresh("f")
        return [("call", f, block(depth + 1, counters, False, True), fresh("r"))]

    return block(0, [], False, False) + [("print", "last")]
