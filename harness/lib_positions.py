"""Generators for C18: runtime diagnostics whose position is an OPERATOR, a KEYWORD or an ARGUMENT, planted at a position the
generator computes itself (marker «0»), in chains / nestings of two to four.  Model-free: the offending token is predicted by
a small reference in this file (three-tier left-associative parse of a flat operator chain + Python arithmetic on i64 /
strings / lists / booleans; evaluation order lhs, rhs, apply), never by the implementation or the Lean model.

Text conventions (shared with props/C18.py): «0» = the offending token, «1», «2», … = the calls on the stack, innermost first.
Nothing is planted inside interpolation slots or directly inside parentheses (known findings K2 / K4 / K5), no line break is an
offender (K7) — the layout engine of C18 adds the continuation breaks, comments, CR LF, tabs afterwards.
"""

I64_MAX = 2 ** 63 - 1
I64_MIN = -2 ** 63

# every name ends in _q (the preludes of C18 and the programs of progs never use these)
SETUP_ITEMS = [
    ("vn_q", "vn_q := 7"), ("vneg_q", "vneg_q := -3"), ("vbig_q", "vbig_q := 9223372036854775807"), ("vs_q", "vs_q := \"sé\""),
    ("vb_q", "vb_q := true"), ("vl_q", "vl_q := [1, 2, 3]"), ("vll_q", "vll_q := [[1, 2], [3]]"), ("ve_q", "ve_q := []"),
    ("vo_q", "vo_q := {\"k\": 3, \"s\": \"t\", \"l\": [4, 5], \"ll\": [[6], [[7, 8]]], \"o\": {\"j\": 1}, \"z\": 0}"),
    ("fid_q", "fn fid_q(a) { return a; }"),
]
SETUP = "".join(stmt + "\n" for _, stmt in SETUP_ITEMS)


def setup_for(rng, tail):
    """the declarations `tail` refers to (each is independent of the others), a few per line"""
    out = ""
    for name, stmt in SETUP_ITEMS:
        if name in tail:
            out += stmt + rng.choice(["\n", "\n", "; ", " ;\t"])
    if out and not out.endswith("\n"):
        out = out.rstrip(" ;\t") + "\n"
    return out


class Lst:
    """a list value with identity (=== / !==)"""

    def __init__(self, items):
        self.items = list(items)


_VL = Lst([1, 2, 3])
_VLL0 = Lst([1, 2])
_VE = Lst([])
_VOL = Lst([4, 5])


class Fail(Exception):
    def __init__(self, k, why):
        Exception.__init__(self, why)
        self.k = k
        self.why = why


class Ambiguous(Exception):
    """the outcome would depend on whether `&&` / `||` evaluate their right operand (nothing this check may assume)"""


TIER = {"&&": 2, "||": 2, "+": 3, "-": 3}
for _o in ("*", "/", "%", "==", "!=", ">", ">=", "<", "<=", "===", "!=="):
    TIER[_o] = 4
ALL_OPS = sorted(TIER)


def parse_chain(ops):
    """operand0 ops[0] operand1 ops[1] … -> tree; tiers 2 (&& ||) < 3 (+ -) < 4 (the rest), all left-associative"""
    pos = [0]

    def tier(t):
        if t == 5:
            return ("leaf", pos[0])
        left = tier(t + 1)
        while pos[0] < len(ops) and TIER[ops[pos[0]]] == t:
            k = pos[0]
            pos[0] += 1
            left = ("op", k, left, tier(t + 1))
        return left
    return tier(2)


def ty(v):
    if v is None:
        return "null"
    if isinstance(v, bool):
        return "bool"
    if isinstance(v, int):
        return "int"
    if isinstance(v, str):
        return "string"
    if isinstance(v, Lst):
        return "list"
    raise ValueError(v)


def _chk(k, n):
    if n < I64_MIN or n > I64_MAX:
        raise Fail(k, "overflow")
    return n


def _eq(k, a, b):
    ta, tb = ty(a), ty(b)
    if ta != tb:
        raise Fail(k, "type")
    if ta != "list":
        return a == b
    if a is b:
        return True
    if len(a.items) != len(b.items):
        return False
    for x, y in zip(a.items, b.items):
        if not _eq(k, x, y):
            return False
    return True


def apply_op(k, op, a, b):
    ta, tb = ty(a), ty(b)
    if op == "+":
        if ta == tb == "int":
            return _chk(k, a + b)
        if ta == tb == "string":
            return a + b
        if ta == tb == "list":
            return Lst(a.items + b.items)
        raise Fail(k, "type")
    if op in ("-", "*", "/", "%"):
        if not ta == tb == "int":
            raise Fail(k, "type")
        if op == "-":
            return _chk(k, a - b)
        if op == "*":
            return _chk(k, a * b)
        if b == 0:
            raise Fail(k, "zero")
        q = abs(a) // abs(b)
        if (a < 0) != (b < 0):
            q = -q
        if op == "/":
            return _chk(k, q)
        return a - q * b
    if op in ("&&", "||"):
        if not ta == tb == "bool":
            raise Fail(k, "type")
        return (a and b) if op == "&&" else (a or b)
    if op in (">", ">=", "<", "<="):
        if not ta == tb == "int":
            raise Fail(k, "type")
        return {">": a > b, ">=": a >= b, "<": a < b, "<=": a <= b}[op]
    if op in ("==", "!="):
        r = _eq(k, a, b)
        return r if op == "==" else not r
    if op in ("===", "!=="):
        if not ta == tb == "list":
            raise Fail(k, "type")
        return (a is b) if op == "===" else (a is not b)
    raise ValueError(op)


class Raises:
    """an operand whose own evaluation fails (undefined name, call of a non-function, wrong number of arguments)"""

    def __init__(self, why):
        self.why = why


def evaluate(tree, ops, vals):
    if tree[0] == "leaf":
        v = vals[tree[1]]
        if isinstance(v, Raises):
            raise Fail(("operand", tree[1]), v.why)
        return v
    _, k, l, r = tree
    a = evaluate(l, ops, vals)
    op = ops[k]
    if op in ("&&", "||") and a is not (op == "&&"):
        # a reader who assumes short-circuit evaluation (or a type check of the left operand first) would not evaluate
        # the right operand here: a failure inside it is not a prediction this check may make
        try:
            b = evaluate(r, ops, vals)
        except Fail:
            raise Ambiguous()
    else:
        b = evaluate(r, ops, vals)
    return apply_op(k, op, a, b)


# ------------------------------------------------------------------------------------------------ operands
def operand(rng, t):
    """-> (text, value) of type t; the first token of the text is the operand's first token, none is parenthesised"""
    if t == "int":
        return rng.choice([("1", 1), ("2", 2), ("0", 0), ("5", 5), ("12", 12), ("vn_q", 7), ("vneg_q", -3), ("vl_q[1]", 2),
                           ("vo_q.k", 3), ("fid_q(4)", 4), ("vo_q[\"k\"]", 3), ("vll_q[0][1]", 2), ("vo_q.l[0]", 4),
                           ("-2", -2), ("3", 3)])
    if t == "zero":
        return rng.choice([("0", 0), ("fid_q(0)", 0), ("0", 0), ("vo_q.z", 0)])
    if t == "bigint":
        return rng.choice([("9223372036854775807", I64_MAX), ("vbig_q", I64_MAX), ("4611686018427387904", 2 ** 62),
                           ("3037000500", 3037000500), ("fid_q(vbig_q)", I64_MAX), ("-9223372036854775807", -I64_MAX),
                           ("6148914691236517205", 6148914691236517205)])
    if t == "string":
        return rng.choice([("\"a\"", "a"), ("\"é😀\"", "é😀"), ("vs_q", "sé"), ("vo_q.s", "t"), ("\"\"", ""), ("fid_q(\"x\")", "x"),
                           ("\"b c\"", "b c")])
    if t == "bool":
        return rng.choice([("true", True), ("false", False), ("vb_q", True), ("fid_q(false)", False)])
    if t == "null":
        return rng.choice([("null", None), ("fid_q(null)", None)])
    if t == "list":
        return rng.choice([("[1]", Lst([1])), ("[]", Lst([])), ("vl_q", _VL), ("vll_q[0]", _VLL0), ("ve_q", _VE), ("vo_q.l", _VOL),
                           ("[2, 3]", Lst([2, 3])), ("fid_q(vl_q)", _VL)])
    raise ValueError(t)


BAD_OPERANDS = [("nope_q", "undefined"), ("nope_q", "undefined"), ("nope_q.k", "undefined"), ("nope_q[0]", "undefined"),
                ("vn_q(1)", "noncall"), ("\"s\"(0)", "noncall"), ("vo_q.k()", "noncall"), ("vl_q[0](2)", "noncall"),
                ("fid_q()", "arity"), ("fid_q(1, 2)", "arity"), ("fid_q(vl_q..)", "arity"), ("nope_q(1)", "undefined")]
TYPES = ["int", "bigint", "string", "bool", "null", "list"]
PROFILES = {
    "sum": ["+"],
    "additive": ["+", "+", "-"],
    "arith": ["+", "-", "*", "/", "%", "+", "*"],
    "mixed": ALL_OPS,
}


def gen_chain(rng, n, profile, bad_operand=False):
    ops = [rng.choice(PROFILES[profile]) for _ in range(n)]
    if bad_operand:
        # a well-typed chain (or, profile mixed, whatever comes) in which one operand fails by itself: the offender is the
        # first token of that operand unless an operator applied before it is evaluated fails first
        base = "int" if profile != "sum" else rng.choice(["int", "string", "list"])
        operands = [operand(rng, rng.choice(["int", "int", "bool", "string"]) if profile == "mixed" else base) for _ in range(n + 1)]
        text, why = rng.choice(BAD_OPERANDS)
        operands[rng.randrange(n + 1)] = (text, Raises(why))
        return ops, operands
    if profile == "mixed":
        types = [rng.choice(["int", "int", "int", "bool", "string", "list", "bigint", "null"]) for _ in range(n + 1)]
    else:
        base = rng.choice(["int", "int", "string", "list"]) if profile == "sum" else "int"
        types = [base] * (n + 1)
        j = rng.randrange(n + 1)
        r = rng.random()
        divs = [i for i, o in enumerate(ops) if o in "/%"]
        if base == "int" and r < 0.4:
            # an overflow: two large operands, or a large one met by an accumulated sum
            types[j] = "bigint"
            types[rng.randrange(n + 1)] = "bigint"
        elif base == "int" and r < 0.6 and divs:
            types[rng.choice(divs) + 1] = "zero"        # the right operand of `/` `%` is always a single operand (tier 4)
        else:
            types[j] = rng.choice([t for t in TYPES if t != base and not (base == "int" and t == "bigint")])
    operands = [operand(rng, t) for t in types]
    return ops, operands


def chain_failure(ops, operands):
    """-> ("fail", k, why) | ("ok", value) | ("ambiguous",)"""
    try:
        v = evaluate(parse_chain(ops), ops, [v for _, v in operands])
    except Fail as f:
        return ("fail", f.k, f.why)
    except Ambiguous:
        return ("ambiguous",)
    return ("ok", v)


OPASSIGN = ["+=", "-=", "*=", "/=", "%="]
OPASSIGN_LHS = [("int", "vt_q := 7", 7), ("int", "vt_q := 9223372036854775807", I64_MAX), ("string", "vt_q := \"é\"", "é"),
                ("list", "vt_q := [1]", None), ("bool", "vt_q := false", False), ("null", "vt_q := null", None),
                ("int", "vt_q := -9223372036854775807", -I64_MAX)]
OPASSIGN_TARGET = [("vt_q", "@"), ("vt_q[1]", "[0, @]"), ("vt_q.k", "{\"k\": @}"), ("vt_q[\"é\"][0]", "{\"é\": [@]}")]

# where the chain stands: statement text with @ for the expression; "return" needs an enclosing function
CHAIN_SITES = [
    ("declare", "r_q := @", False), ("declare", "r_q := @", False), ("print", "print(@)", False), ("item", "r_q := [0, @]", False),
    ("value", "r_q := {\"k\": @}", False), ("argument", "r_q := fid_q(@)", False), ("second-argument", "print(vn_q, @)", False),
    ("opassign-rhs", "vn_q += @", False), ("return", "return @", True), ("condition", "if @ {\n}", False),
    ("while", "while @ {\n}", False), ("index", "r_q := vl_q[@]", False), ("for", "for i_q in @ {\n}", False),
    ("assign", "vn_q = @", False), ("element-assign", "vl_q[0] = @", False), ("range-end", "r_q := 0 .. @", False),
]


def opchain_case(rng):
    """-> (tag, statements with markers, needs_fn, info)"""
    n = rng.randrange(2, 5)
    mode = rng.choice(["operator"] * 12 + ["opassign"] * 3 + ["operand"] * 5)
    want = ("operand", rng.randrange(n + 1)) if mode == "operand" else rng.randrange(n)
    profile = rng.choice(["sum", "sum", "sum", "additive", "arith", "arith", "mixed", "mixed"])
    best = None
    for _ in range(80):
        if mode == "opassign":
            # target op= chain: the chain (n - 1 operators) is evaluated first, then the op-assignment is applied — the
            # offender is the first failing operator of the chain or, when the chain succeeds, the op-assign token
            ops, operands = gen_chain(rng, n - 1, profile)
            out = chain_failure(ops, operands)
            lt, decl, lv = rng.choice(OPASSIGN_LHS)
            aop = rng.choice(OPASSIGN)
            if out[0] == "ok":
                try:
                    apply_op(n - 1, aop[0], Lst([1]) if lt == "list" else lv, out[1])
                    continue
                except Fail as f:
                    out = ("fail", n - 1, f.why)
        else:
            ops, operands = gen_chain(rng, n, profile, bad_operand=mode == "operand")
            out = chain_failure(ops, operands)
            decl = aop = None
        if out[0] != "fail":
            continue
        best = (ops, operands, out, decl, aop)
        if out[1] == want:
            break
    if best is None:
        return None
    ops, operands, out, decl, aop = best
    k = out[1]
    parts = []
    for i, (text, _) in enumerate(operands):
        parts.append(("«0»" if k == ("operand", i) else "") + text)
        if i < len(ops):
            parts.append(("«0»" if i == k else "") + ops[i])
    expr = " ".join(parts)
    if aop is not None:
        ti = rng.randrange(len(OPASSIGN_TARGET))
        target, shape = OPASSIGN_TARGET[ti]
        name, init = decl.split(" := ")
        stmt = f"{name} := {shape.replace('@', init)}\n{target} {'«0»' if k == len(ops) else ''}{aop} {expr}"
        site, needs_fn = f"opassign{ti}{aop}", False
    else:
        site, shape, needs_fn = rng.choice(CHAIN_SITES)
        stmt = shape.replace("@", expr)
    total = len(ops) + (1 if aop else 0)
    kinds = "sum-only" if set(ops) == {"+"} else ("one-tier" if len({TIER[o] for o in ops}) == 1 else "tiers")
    at = f"operand{k[1]}" if isinstance(k, tuple) else f"operator{k}"
    return f"{total}ops-{at}-{out[2]}-{kinds}-{site}", stmt, needs_fn, {"n": total, "k": at, "why": out[2], "ops": kinds}


# ------------------------------------------------------------------------------------------------ nesting
NONLOOP = ["if", "else", "elif", "block"]
LOOPS = ["for", "while", "forobj", "forrange"]
FUNCS = ["fn", "anon", "method"]


def _indent(rng, text):
    ind = rng.choice(["    ", "\t", "  ", ""])
    return "\n".join(ind + l for l in text.split("\n"))


def wrap(rng, kind, d, body):
    """one enclosing construct around the statements `body`; functions are handled by nest()"""
    b = _indent(rng, body)
    if kind == "if":
        return "if " + rng.choice(["true", "vb_q", "1 == 1"]) + " {\n" + b + "\n}"
    if kind == "else":
        return "if false {\n} else {\n" + b + "\n}"
    if kind == "elif":
        return "if false {\n} else if vb_q {\n" + b + "\n}"
    if kind == "block":
        return "{\n" + b + "\n}"
    if kind == "for":
        return f"for k{d}_q in [1, 2] {{\n" + b + "\n}"
    if kind == "forobj":
        return f"for [j{d}_q, k{d}_q] in {{\"é\": 1}} {{\n" + b + "\n}"
    if kind == "forrange":
        return f"for k{d}_q in 0 .. 2 {{\n" + b + "\n}"
    if kind == "while":
        return "while true {\n" + b + "\n}"
    raise ValueError(kind)


def nest(rng, stmt, plan):
    """wrap `stmt` into the constructs of `plan` (innermost first).  A function wrapper turns the statements into the body
    of a function and continues with the call (marker «m», m = 1, 2, … innermost first); the definitions made so far stay in
    front of the statement or move into the new construct with it."""
    defs = []
    m = 0
    for d, kind in enumerate(plan):
        inside = rng.random() < 0.5
        if kind in FUNCS:
            m += 1
            name = f"w{d}_q"
            body = _indent(rng, "\n".join(defs + [stmt]) if inside else stmt)
            if kind == "fn":
                fdef, call = f"fn {name}() {{\n{body}\n}}", f"{name}()"
            elif kind == "anon":
                fdef, call = f"{name} := fn() {{\n{body}\n}}", f"{name}()"
            else:
                fdef, call = f"{name} := {{\"m\": fn() {{\n{body}\n}}}}", f"{name}.m()"
            defs = ([] if inside else defs) + [fdef]
            stmt = rng.choice(["«%d»%s", "«%d»%s", "u%d_q := «%%d»%%s" % d, "print(«%d»%s)", "r%d_q := [0, «%%d»%%s]" % d]) % (m, call)
        elif inside:
            stmt = wrap(rng, kind, d, "\n".join(defs + [stmt]))
            defs = []
        else:
            stmt = wrap(rng, kind, d, stmt)
    return "\n".join(defs + [stmt]) + "\n", m


def plan_any(rng, levels, need_fn=False, no_fn=False):
    kinds = NONLOOP + LOOPS + ([] if no_fn else FUNCS + FUNCS)
    plan = [rng.choice(kinds) for _ in range(levels)]
    if need_fn and not any(k in FUNCS for k in plan):
        plan.insert(rng.randrange(len(plan) + 1), rng.choice(FUNCS))
    return plan


# ------------------------------------------------------------------------------------------------ keywords
def jump_case(rng):
    """`break` / `continue` outside any loop of the function (or of the script) that executes them, `return` outside any
    function: the offending token is the keyword.  -> (tag, text, info)"""
    kw = rng.choice(["break", "continue", "break", "continue", "return"])
    if kw == "return":
        stmt = "«0»return " + rng.choice(["1", "null", "vn_q", "[vs_q]"])
        plan = plan_any(rng, rng.randrange(0, 4), no_fn=True)
        text, m = nest(rng, stmt, plan)
        return f"return-top-{'-'.join(plan) or 'bare'}", text, {"kw": kw, "fn": 0}
    stmt = "«0»" + kw
    r = rng.random()
    if r < 0.2:
        # a loop of the same body that is over (with its own, legitimate jump) does not make the later keyword legitimate
        stmt = rng.choice(["for i_q in [1] {\n\t" + kw + "\n}\n", "while true {\n    break\n}\n",
                           "for [_, i_q] in [1, 2] {\n  if i_q == 1 { continue; }\n}\n"]) + stmt
    elif r < 0.3:
        stmt = "print(\"é\")\n" + stmt
    inner = [rng.choice(NONLOOP) for _ in range(rng.choice([0, 0, 1, 1, 2]))]
    fdepth = rng.choice([0, 1, 1, 1, 2, 2, 3])
    if fdepth == 0:
        if not inner:
            inner = [rng.choice(NONLOOP)]
        plan = inner + [rng.choice(NONLOOP) for _ in range(rng.randrange(0, 3))]
    else:
        plan = inner + [rng.choice(FUNCS)]
        for _ in range(fdepth - 1):
            if rng.random() < 0.5:
                plan.append(rng.choice(NONLOOP + LOOPS))
            plan.append(rng.choice(FUNCS))
        # what encloses the outermost call: loops welcome (a function body is never part of its caller's loop)
        for _ in range(rng.choice([0, 1, 1, 2])):
            plan.append(rng.choice(LOOPS + LOOPS + NONLOOP))
        plan = plan[:6]
    text, m = nest(rng, stmt, plan)
    shape = "-".join("F" if k in FUNCS else ("L" if k in LOOPS else "b") for k in plan)
    return f"{kw}-{shape}", text, {"kw": kw, "fn": m}


# ------------------------------------------------------------------------------------------------ arguments
BAD = {
    "nonint": ["\"a\"", "null", "true", "[1]", "vs_q", "vo_q.s", "fid_q(null)", "vl_q", "vs_q + \"x\"", "vo_q", "1 < 2", "fid_q"],
    "negative": ["-1", "vneg_q", "0 - 1", "fid_q(-2)", "vn_q - 9", "vl_q[0] - 5", "-9223372036854775807"],
    "nonstring": ["1", "null", "vn_q", "[\"k\"]", "vn_q + 1", "true", "fid_q(0)", "vl_q[0]"],
    "nonbool": ["1", "\"s\"", "null", "vl_q", "vn_q", "fid_q(0)", "vn_q + 1", "vo_q.k", "[true]", "vs_q", "fid_q"],
    "noniter": ["5", "null", "true", "vn_q", "fid_q", "vn_q * 2", "vo_q.k", "fid_q(1)", "vb_q"],
    "nonlist": ["5", "\"s\"", "null", "vo_q", "vn_q", "vn_q * 2", "vo_q.s", "fid_q(1)", "true"],
    "nonobject": ["5", "\"s\"", "null", "vl_q", "vn_q", "vo_q.l", "fid_q(vs_q)", "vs_q + \"x\"", "false"],
}
ARG_SITES = [
    # tag, statement with @ for the argument, what makes the argument wrong
    ("index", "r_q := vl_q[@]", "nonint negative"), ("index-2", "r_q := vll_q[0][@]", "nonint negative"),
    ("index-3", "r_q := vo_q.ll[1][0][@]", "nonint negative"), ("index-4", "r_q := vo_q[\"ll\"][1][0][1 - 1 : 2][@]", "nonint negative"),
    ("index-literal", "r_q := [[1, 2]][0][@]", "nonint negative"), ("index-string", "r_q := vs_q[@]", "nonint negative"),
    ("index-call", "r_q := fid_q(vll_q)[1][@]", "nonint negative"), ("index-in-index", "r_q := vl_q[vl_q[@]]", "nonint negative"),
    ("index-in-sum", "r_q := 1 + vl_q[0] + vl_q[@]", "nonint negative"), ("index-in-item", "r_q := [0, [vl_q[@]]]", "nonint negative"),
    ("key", "r_q := vo_q[@]", "nonstring"), ("key-2", "r_q := vo_q.o[@]", "nonstring"), ("key-3", "r_q := vo_q[\"o\"][@]", "nonstring"),
    ("key-in-value", "r_q := {\"a\": {\"b\": vo_q[@]}}", "nonstring"),
    ("slice-start", "r_q := vl_q[@:1]", "nonint negative"), ("slice-end", "r_q := vl_q[0:@]", "nonint negative"),
    ("slice-start-only", "r_q := vs_q[@:]", "nonint negative"), ("slice-end-only", "r_q := vl_q[:@]", "nonint negative"),
    ("slice-2", "r_q := vll_q[0][1:@]", "nonint negative"), ("slice-3", "r_q := vo_q.ll[1][0][@:2]", "nonint negative"),
    ("slice-of-slice", "r_q := vl_q[0:3][1:@]", "nonint negative"),
    ("range-end", "r_q := 0 .. @", "nonint"), ("range-start", "r_q := @ .. 3", "nonint"), ("range-for", "for i_q in 0 .. @ {\n}", "nonint"),
    ("range-item", "r_q := [0, [1 .. @]]", "nonint"), ("range-argument", "print(vn_q, 0 .. @)", "nonint"),
    ("if", "if @ {\n}", "nonbool"), ("else-if", "if false {\n} else if @ {\n}", "nonbool"),
    ("else-if-2", "if false {\n} else if 1 > 2 {\n} else if @ {\n} else {\n}", "nonbool"), ("while", "while @ {\n}", "nonbool"),
    ("for", "for it_q in @ {\n}", "noniter"), ("for-pair", "for [i_q, it_q] in @ {\n}", "noniter"),
    ("spread-item", "r_q := [1, @..]", "nonlist"), ("spread-item-2", "r_q := [[0, @..]]", "nonlist"),
    ("spread-item-3", "r_q := {\"a\": [vl_q.., [@..]]}", "nonlist"), ("spread-first", "r_q := [@.., 1]", "nonlist"),
    ("spread-argument", "print(1, @..)", "nonlist"), ("spread-argument-2", "r_q := fid_q(@..)", "nonlist"),
    ("spread-argument-3", "print(vl_q.., @..)", "nonlist"),
    ("spread-property", "r_q := {\"a\": 1, @..}", "nonobject"), ("spread-property-2", "r_q := {\"a\": {vo_q.., @..}}", "nonobject"),
    ("spread-property-3", "r_q := [{@..}]", "nonobject"),
    ("name", "r_q := {@: 1}", "nonstring"), ("name-2", "r_q := {\"a\": 1, @: 2}", "nonstring"), ("name-3", "r_q := {\"a\": {\"b\": [{@: 1}]}}", "nonstring"),
    # the same arguments in assignment targets
    ("target-index", "vl_q[@] = 1", "nonint negative"), ("target-index-2", "vll_q[0][@] = 1", "nonint negative"),
    ("target-index-3", "vo_q.ll[1][0][@] = 1", "nonint negative"), ("target-index-op", "vl_q[@] += 1", "nonint negative"),
    ("target-key", "vo_q[@] = 1", "nonstring"), ("target-key-2", "vo_q.o[@] = 1", "nonstring"), ("target-key-op", "vo_q[@] -= 1", "nonstring"),
    ("target-slice-start", "vl_q[@:1] = [1]", "nonint negative"), ("target-slice-end", "vl_q[0:@] = [1]", "nonint negative"),
    ("target-slice-2", "vll_q[0][0:@] = [1]", "nonint negative"),
]


def argument_case(rng):
    tag, shape, bads = rng.choice(ARG_SITES)
    bad = rng.choice(bads.split())
    arg = rng.choice(BAD[bad])
    stmt = shape.replace("@", "«0»" + arg)
    plan = plan_any(rng, rng.choice([0, 1, 1, 2, 2, 3]))
    text, m = nest(rng, stmt, plan)
    form = "literal" if arg[0] in "\"-[0123456789" or arg in ("null", "true", "false") else ("binary" if " " in arg else "path")
    return f"{tag}-{bad}-{form}-{len(plan)}", text, {"site": tag, "bad": bad, "fn": m}
