"""progs.py — scope- and kind-aware random program generator over the documented feature set.

Every choice comes from the `random.Random` passed in.  Programs terminate by construction (while loops
count a private counter; recursion carries a decreasing argument).  Most programs run to completion; a
chosen fraction fails at a chosen site.
"""
import random

INT_EDGE = [0, 1, 2, 3, 7, 10, 255, 2**31 - 1, 2**31, 2**32, 3037000499, 3037000500, 2**62, 2**63 - 1]
STR_ATOMS = ["", "a", "ab", "hello", "é", "€", "😀", "x y", "A", "_", "0", "q\\\"q", "d\\$d", "nl\\nnl", "\\x41"]
KEYS = ["a", "b", "k", "A", "key", "x1"]


class Gen:
    def __init__(self, rng, max_depth=4, fail_rate=0.2):
        self.r = rng
        self.max_depth = max_depth
        self.fail_rate = fail_rate
        self.scopes = [{}]          # name -> kind
        self.counter = 0
        self.in_loop = 0
        self.in_fn = 0
        self.funcs = []             # (name, param_kinds, ret_kind) visible at top scope chain
        self.planted = None
        self.loop_nest = 0          # loops enclosing the current point, function boundaries included
        self.retired = []           # names whose scope has ended
        self.reserved = set()       # names captured by functions (re-declaring them would change what a call does: still valid,
                                    # but keep them so the generator's kind tracking stays exact)

    # ------------------------------------------------------------ names
    def fresh(self, prefix="v"):
        """a name not declared in the *current* scope: usually new, sometimes one that is declared in an outer scope
        (shadowing) or that was declared in a block that has ended (must be gone)"""
        if prefix == "v" and self.r.random() < 0.3:
            cands = [n for n in self.retired + [n for sc in self.scopes[:-1] for n, k in sc.items() if n.startswith("v")]
                     if n not in self.scopes[-1] and n not in self.reserved]
            if cands:
                return self.r.choice(cands)
        self.counter += 1
        return f"{prefix}{self.counter}"

    def vars_of(self, kind):
        if getattr(self, "no_grow", False) and kind in ("str", "ilist", "obj"):
            return []      # an update of a container/string never mentions containers/strings: no multiplicative growth
        out = []
        seen = set()
        for sc in reversed(self.scopes):
            for n, k in sc.items():
                if n in seen:
                    continue
                seen.add(n)
                if k == kind:
                    out.append(n)
        return out

    def declare(self, name, kind):
        self.scopes[-1][name] = kind

    # ------------------------------------------------------------ expressions
    def int_lit(self):
        r = self.r
        if r.random() < 0.08:
            return str(r.choice(INT_EDGE))
        n = r.randrange(0, 20)
        if r.random() < 0.15:
            return f"-{n}" if r.random() < 0.5 else f"(0 - {n})"
        if r.random() < 0.05:
            return "1_000"
        return str(n)

    def opnd(self, kind, d):
        """an operand for a tier-4 operator (comparison, * / %): parenthesised when it contains a looser operator"""
        e = self.expr(kind, d)
        return e if self.atomic(e) else f"({e})"

    @staticmethod
    def atomic(e):
        depth = 0
        for i, ch in enumerate(e):
            if ch in "([{":
                depth += 1
            elif ch in ")]}":
                depth -= 1
            elif ch == '"':
                return e.count(" ") == 0 or (e.startswith('"') and e.count('"') == 2) or e.startswith('$"') and False
            elif depth == 0 and ch == " ":
                return False
        return True

    def expr(self, kind, d=0):
        r = self.r
        leaf = d >= 3 or r.random() < 0.35
        vs = self.vars_of(kind)
        if kind == "int":
            if leaf:
                return r.choice(vs) if vs and r.random() < 0.6 else self.int_lit()
            c = r.random()
            if c < 0.45:
                op = r.choice(["+", "-", "*", "+", "-"])
                if op == "*":
                    return f"{self.opnd('int', d + 1)} * {self.opnd('int', d + 1)}"
                return f"{self.expr('int', d + 1)} {op} {self.opnd('int', d + 1)}"
            if c < 0.55:
                return f"{self.opnd('int', d + 1)} {r.choice(['/', '%'])} {r.choice([1, 2, 3, 5, 7, -2, -3])}"
            if c < 0.62:
                return f"({self.expr('int', d + 1)})"
            if c < 0.70:
                return f"{self.opnd('str', d + 1)}->len()"
            if c < 0.78 and self.vars_of("ilist"):
                return f"{r.choice(self.vars_of('ilist'))}[0]"
            if c < 0.86:
                fs = [f for f in self.funcs if f[2] == "int"]
                if fs:
                    return self.call(r.choice(fs), d)
            return self.int_lit()
        if kind == "bool":
            if leaf:
                return r.choice(vs) if vs and r.random() < 0.5 else r.choice(["true", "false"])
            c = r.random()
            if c < 0.5:
                return f"{self.opnd('int', d + 1)} {r.choice(['<', '<=', '>', '>=', '==', '!='])} {self.opnd('int', d + 1)}"
            if c < 0.7:
                return f"{self.opnd('bool', d + 1)} {r.choice(['&&', '||'])} {self.opnd('bool', d + 1)}"
            if c < 0.8:
                return f"{self.opnd('str', d + 1)} == {self.opnd('str', d + 1)}"
            if c < 0.9 and self.vars_of("ilist"):
                a = r.choice(self.vars_of("ilist"))
                b = r.choice(self.vars_of("ilist"))
                return f"{a} {r.choice(['==', '===', '!==', '!='])} {b}"
            return f"({self.expr('bool', d + 1)})"
        if kind == "str":
            if leaf:
                if vs and r.random() < 0.5:
                    return r.choice(vs)
                return '"' + r.choice(STR_ATOMS) + '"'
            c = r.random()
            if c < 0.4:
                return f"{self.expr('str', d + 1)} + {self.opnd('str', d + 1)}"
            if c < 0.65:
                return self.interp(d)
            if c < 0.75:
                return f"{self.opnd(r.choice(['int', 'bool', 'str', 'ilist', 'obj']), d + 1)}->type()"
            if c < 0.85:
                return f'"abcdef"[{r.randrange(0, 6)}]'
            return f'"abcdef"[{r.randrange(0, 3)}:{r.randrange(3, 7)}]'
        if kind == "ilist":
            if leaf:
                if vs and r.random() < 0.6:
                    return r.choice(vs)
                return "[" + ", ".join(self.int_lit() for _ in range(r.randrange(1, 4))) + "]"
            c = r.random()
            if c < 0.3:
                return f"{self.expr('ilist', d + 1)} + {self.opnd('ilist', d + 1)}"
            if c < 0.5:
                return f"[{self.expr('int', d + 1)}, {self.expr('ilist', d + 1)}..]"
            if c < 0.65:
                return f"({r.randrange(0, 3)} .. {r.randrange(3, 7)})"
            if c < 0.8:
                return f"{self.opnd('ilist', d + 1)}[0:1]"
            return "[" + ", ".join(self.expr("int", d + 1) for _ in range(r.randrange(1, 4))) + "]"
        if kind == "obj":
            if leaf and vs and r.random() < 0.6:
                return r.choice(vs)
            ks = r.sample(KEYS, r.randrange(1, 4))
            parts = []
            for k in ks:
                vk = r.choice(["int", "str", "bool", "ilist"])
                parts.append(f'"{k}": {self.expr(vk, d + 1)}')
            if vs and r.random() < 0.3:
                parts.insert(r.randrange(0, len(parts) + 1), f"{r.choice(vs)}..")
            return "{" + ", ".join(parts) + "}"
        return "null"

    def interp(self, d):
        r = self.r
        parts = []
        self.slot_depth = getattr(self, "slot_depth", 0) + 1
        lits = ["", "a", "é", "€ ", "x=", "\\$", " ", "\\x41", "\\n"] + (["{", "}"] if self.slot_depth == 1 else [])
        for _ in range(r.randrange(1, 4)):
            parts.append(r.choice(lits))
            parts.append("${" + self.expr("str", d + 2) + "}")
        parts.append(r.choice(["", "z", "😀"]))
        self.slot_depth -= 1
        body = "".join(parts)
        if '"' in body:   # a nested string literal ends the lexer's literal early only outside slots; keep it simple
            pass
        return '$"' + body + '"'

    def call(self, f, d):
        name, pks, _ = f
        return f"{name}(" + ", ".join(self.expr(k, d + 1) for k in pks) + ")"

    # ------------------------------------------------------------ statements
    def block(self, depth, n=None, fn_ret=None):
        self.scopes.append({})
        saved_funcs = list(self.funcs)
        out = []
        for _ in range(n if n is not None else self.r.randrange(1, 4)):
            out.extend(self.stmt(depth))
        if fn_ret:
            out.append(f"return {self.expr(fn_ret, 1)};")
        gone = self.scopes.pop()
        self.retired += [n for n in gone if n.startswith("v")]
        self.retired = self.retired[-12:]
        self.funcs = saved_funcs
        return out

    def ind(self, lines):
        return ["    " + l for l in lines]

    def stmt(self, depth):
        r = self.r
        c = r.random()
        deep = depth >= self.max_depth
        if c < 0.22 or deep:
            kind = r.choice(["int", "int", "str", "bool", "ilist", "obj"])
            name = self.fresh()
            e = self.expr(kind)
            self.declare(name, kind)
            return [f"{name} := {e};"]
        if c < 0.34:
            kind = r.choice(["int", "str", "bool", "ilist", "obj", "int"])
            return [f"print({self.expr(kind)});"]
        if c < 0.42:
            # strings and lists only grow outside loops (a loop whose bound grows inside it multiplies)
            kind = r.choice(["int", "str", "ilist"]) if self.in_loop == 0 and self.loop_nest == 0 else "int"
            vs = [v for v in self.vars_of(kind) if not v.startswith("c")]
            if vs:
                v = r.choice(vs)
                self.no_grow = True
                saved_funcs, self.funcs = self.funcs, []
                try:
                    if r.random() < 0.5:
                        return [f"{v} = {self.expr(kind)};"]
                    op = "+=" if kind != "int" else r.choice(["+=", "-=", "*="])
                    return [f"{v} {op} {self.expr(kind, 2)};"]
                finally:
                    self.no_grow = False
                    self.funcs = saved_funcs
            return [f"print({self.expr(kind)});"]
        if c < 0.52:
            lines = [f"if {self.expr('bool')} {{"] + self.ind(self.block(depth + 1))
            if r.random() < 0.4:
                lines += [f"}} else if {self.expr('bool')} {{"] + self.ind(self.block(depth + 1))
            if r.random() < 0.5:
                lines += ["} else {"] + self.ind(self.block(depth + 1))
            return lines + ["}"]
        if c < 0.58:
            cn = self.fresh("c")
            self.declare(cn, "counter")
            n = r.randrange(1, 4)
            self.in_loop += 1
            self.loop_nest += 1
            body = self.block(depth + 1)
            self.loop_nest -= 1
            self.in_loop -= 1
            return [f"{cn} := 0;", f"while {cn} < {n} {{"] + self.ind([f"{cn} += 1;"] + body) + ["}"]
        if c < 0.68:
            k = self.fresh("k")
            v = self.fresh("e")
            which = r.random()
            self.in_loop += 1
            self.scopes.append({})
            use_k = r.random() < 0.85
            tgt = f"[{k}, {v}]" if use_k else f"[_, {v}]"
            if not use_k:
                k = "_unused"
            if which < 0.45:
                it = self.expr("ilist")
                self.declare(k, "int"); self.declare(v, "int")
            elif which < 0.65:
                it = self.expr("str")
                self.declare(k, "int"); self.declare(v, "str")
            elif which < 0.8:
                it = f"{r.randrange(0, 3)} .. {r.randrange(0, 5)}"
                self.declare(k, "int"); self.declare(v, "int")
            else:
                it = "{" + ", ".join(f'"{kk}": {self.int_lit()}' for kk in r.sample(KEYS, r.randrange(1, 4))) + "}"
                self.declare(k, "str"); self.declare(v, "int")
            self.scopes[-1].pop("_unused", None)
            self.loop_nest += 1
            body = self.block(depth + 1)
            self.loop_nest -= 1
            self.scopes.pop()
            self.in_loop -= 1
            return [f"for {tgt} in {it} {{"] + self.ind(body) + ["}"]
        if c < 0.74 and self.in_loop:
            return [f"if {self.expr('bool')} {{", f"    {r.choice(['break', 'continue'])};", "}"]
        if c < 0.80:
            name = self.fresh("f")
            for sc in self.scopes:
                self.reserved |= set(sc)
            nparams = r.randrange(0, 3)
            pks = [r.choice(["int", "str", "ilist"]) for _ in range(nparams)]
            ret = r.choice(["int", "str", "int"])
            self.scopes.append({})
            ps = []
            for pk in pks:
                pn = self.fresh("p")
                self.declare(pn, pk)
                ps.append(pn)
            self.in_fn += 1
            saved_loop = self.in_loop
            self.in_loop = 0
            body = self.block(depth + 1, fn_ret=ret)
            self.in_loop = saved_loop
            self.in_fn -= 1
            self.scopes.pop()
            self.funcs.append((name, pks, ret))
            self.declare(name, "func")
            return [f"fn {name}({', '.join(ps)}) {{"] + self.ind(body) + ["}"]
        if c < 0.84:
            fs = self.funcs
            if fs:
                return [f"print({self.call(r.choice(fs), 0)});"]
            return [f"print({self.expr('int')});"]
        if c < 0.88:
            return ["{"] + self.ind(self.block(depth + 1)) + ["}"]
        if c < 0.92:
            vs = self.vars_of("ilist")
            if vs:
                v = r.choice(vs)
                return [f"{v}[0] = {self.expr('int')};"] if r.random() < 0.6 else [f"{v}[0] += {self.expr('int', 2)};"]
            return [f"print({self.expr('ilist')});"]
        if c < 0.96:
            vs = self.vars_of("obj")
            if vs:
                v = r.choice(vs)
                k = r.choice(KEYS)
                return [f'{v}.{k} = {self.expr("int")};'] if r.random() < 0.5 else [f'{v}["{k}"] = {self.expr("str")};']
            return [f"print({self.expr('obj')});"]
        if c < 0.968:
            # closures created in a loop capture that iteration's bindings and are called after the loop
            fs, g, k, v = self.fresh("fs"), self.fresh("g"), self.fresh("k"), self.fresh("e")
            self.declare(fs, "flist")
            body_local = self.fresh("w")
            lines = [f"{fs} := [];", f"for [{k}, {v}] in {self.expr('ilist')} {{", f"    {body_local} := {v} * 2;",
                     f"    fn {g}() {{", f"        return {v} * 100 + {k} + {body_local};", "    }", f"    {fs} += [{g}];", "}",
                     f"for [_, {g}c] in {fs} {{", f"    print({g}c());", "}"]
            return lines
        if c < 0.982:
            # aliasing: a second name for the same container, an update through one, both observed
            kind = r.choice(["ilist", "obj"])
            vs = [v for v in self.vars_of(kind) if v.startswith("v")]
            if vs:
                src = r.choice(vs)
                al = self.fresh()
                self.declare(al, kind)
                if kind == "ilist":
                    upd = r.choice([f"{al} += [{self.int_lit()}];", f"{al}[0] = {self.int_lit()};", f"{src} += [{self.int_lit()}];",
                                    f"{al} = {al} + [{self.int_lit()}];"] if self.loop_nest == 0 else [f"{al}[0] = {self.int_lit()};"])
                else:
                    upd = r.choice([f'{al}.zz = {self.int_lit()};', f'{src}["yy"] = {self.int_lit()};'])
                return [f"{al} := {src};", upd, f"print({src});", f"print({al});", f"print({src} === {al});"]
        if 0.982 <= c < 0.993 or (c < 0.982 and r.random() < 0.5):
            return self.methods()
        # destructuring
        a, b, rest = self.fresh(), self.fresh(), self.fresh()
        self.declare(a, "int"); self.declare(b, "int"); self.declare(rest, "ilist")
        return [f"[{a}, {b}, ..{rest}] := [{self.int_lit()}, {self.int_lit()}, {self.int_lit()}, {self.int_lit()}];"]

    def methods(self):
        """objects with methods that use `this`; the same function value reached through different objects, variables,
        list elements, arguments and re-assignments (what `this` is bound to follows the access path of the value)"""
        r = self.r
        oa, ob = self.fresh("m"), self.fresh("m")
        self.declare(oa, "mobj"); self.declare(ob, "mobj")
        na, nb = r.randrange(1, 50), r.randrange(50, 99)
        lines = [f'{oa} := {{"n": {na}, "get": fn() {{ return this.n; }}, "inc": fn(d) {{ this.n += d; return this.n; }}}};',
                 f'{ob} := {{"n": {nb}, "get": {oa}.get, "inc": {oa}["inc"]}};']
        holders, lists = [], []
        ap = self.fresh("ap")
        self.declare(ap, "mfunc")
        lines += [f"fn {ap}(f) {{", "    return f();", "}"]

        def mref():
            k = r.random()
            o = r.choice([oa, ob])
            if k < 0.3:
                return f"{o}.get"
            if k < 0.5:
                return f'{o}["get"]'
            if k < 0.7 and holders:
                return r.choice(holders)
            if k < 0.85 and lists:
                return f"{r.choice(lists)}[{r.randrange(0, 2)}]"
            return f"{o}.get"
        for _ in range(r.randrange(4, 9)):
            k = r.random()
            if k < 0.2:
                h = self.fresh("h")
                self.declare(h, "mfunc")
                lines.append(f"{h} := {mref()};")
                holders.append(h)
            elif k < 0.4 and holders:
                lines.append(f"{r.choice(holders)} = {mref()};")
            elif k < 0.6:
                lines.append(f"print({mref()}());")
            elif k < 0.68:
                x = self.fresh("ml")
                self.declare(x, "mlist")
                lines.append(f"{x} := [{mref()}, {mref()}];")
                lists.append(x)
            elif k < 0.76:
                lines.append(f"print({ap}({mref()}));")
            elif k < 0.84:
                lines.append(f"print({r.choice([oa, ob])}.inc({r.randrange(1, 5)}));")
            elif k < 0.9 and lists:
                lines.append(f"{r.choice(lists)}[{r.randrange(0, 2)}] = {mref()};")
            elif k < 0.95:
                lines.append(f'{r.choice([oa, ob])}.get = {mref()};')
            else:
                lines.append(f"{{\"get\": {self.fresh('h')}}} := {r.choice([oa, ob])};")
        lines.append(f"print({oa}.n + {ob}.n);")
        if r.random() < 0.5:
            # items are evaluated left to right, a spread contributes what its list holds when it is reached
            sx, bf = self.fresh("sx"), self.fresh("bf")
            self.declare(sx, "mlist"); self.declare(bf, "mfunc")
            lines += [f"{sx} := [{r.randrange(1, 9)}, {r.randrange(1, 9)}, {r.randrange(1, 9)}];", f"fn {bf}() {{", f"    {sx}[0] = 99;", "    return 0;", "}"]
            lines.append(r.choice([f"print([{sx}.., {bf}()]);", f"print({ap}(fn() {{ return [{bf}(), {sx}..]; }}));",
                                   f"print([{sx}.., {bf}(), {sx}..]);"]))
        return lines

    FAILS = [
        "print(undefined_name);", "print(1 + \"a\");", "print([1, 2][5]);", "print({\"a\": 1}.zz);",
        "print(9223372036854775807 + 1);", "print(1 / 0);", "zz = 1;", "[q1, q2] := [1];", "print(null->type());",
        "print(1());", "print(\"a\"[3]);", "if 1 { print(1); }", "for zz in 5 { print(1); }", "print([1] == 1);",
        "print(true && 1);", "print(-1 .. \"a\");", "x_dup := 1; x_dup := 2;", "print([1, 2][0 - 1]);", "print(f_undefined(1));",
        "print({\"k\": 1}[1]);", "print([1,2,3][2:1]);", "print([1, 2, 3][5:5]);", "print(\"abc\"[4:4]);", "print([][1:]);", "print($\"${1}\");", "break;", "return 1;",
    ]

    def program(self):
        r = self.r
        lines = []
        n = r.randrange(3, 12)
        fail_at = r.randrange(0, n) if r.random() < self.fail_rate else -1
        for i in range(n):
            if i == fail_at:
                f = r.choice(self.FAILS)
                if f in ("break;", "return 1;") and r.random() < 0.5:
                    lines += ["{", "    " + f, "}"]
                else:
                    lines.append(f)
                self.planted = f
            lines.extend(self.stmt(0))
        for name, kind in list(self.scopes[0].items()):
            if kind in ("int", "str", "bool", "ilist", "obj", "counter"):
                lines.append(f"print({name});")
        return "\n".join(lines) + "\n"


def generate(rng, n, max_depth=4, fail_rate=0.2):
    out = []
    for _ in range(n):
        g = Gen(random.Random(rng.getrandbits(64)), max_depth, fail_rate)
        out.append(g.program())
    return out
