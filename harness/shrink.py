"""shrink.py — line-level delta debugging of a failing script (the predicate re-checks the oracle)."""


def shrink_lines(src, pred, budget=120):
    lines = src.split("\n")
    n = 2
    calls = 0
    while len(lines) >= 2 and calls < budget:
        chunk = max(1, len(lines) // n)
        reduced = False
        i = 0
        while i < len(lines) and calls < budget:
            cand = lines[:i] + lines[i + chunk:]
            calls += 1
            text = "\n".join(cand)
            if cand and pred(text if text.endswith("\n") else text + "\n"):
                lines = cand
                reduced = True
            else:
                i += chunk
        if not reduced:
            if chunk == 1:
                break
            n = min(len(lines), n * 2)
    text = "\n".join(lines)
    return text if text.endswith("\n") else text + "\n"
