"""tie.py — leg B helpers: run both sides on a stream and report where they differ."""
import core


def front(ctx, mode, sources, label, model_ok=True, project=None):
    """token / syntax-tree level.  Returns (impl_blocks, disagreements[(src, impl, model)])."""
    impl = core.batch("impl", mode, sources)
    ctx.count(label + ":" + mode, len(sources))
    if not model_ok:
        return impl, []
    model = core.batch("model", mode, sources)
    ctx.cov["traces_validated_against_impl"] += len(sources)
    pj = project or (lambda b: b)
    dis = [(s, a, b) for s, a, b in zip(sources, impl, model) if pj(a) != pj(b)]
    if dis:
        ctx.cov["model_impl_disagreements"] += len(dis)
        dis.sort(key=lambda t: len(t[0]))
        s, a, b = dis[0]
        ctx.unproved(f"tie:{mode}", f"model and implementation differ on {len(dis)} of {len(sources)} inputs of stream {label}",
                     {"input": s, "impl": a[-2000:], "model": b[-2000:], "more_inputs": [d[0] for d in dis[1:6]]})
    return impl, dis
