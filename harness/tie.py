"""tie.py — leg B helpers: run both sides on a stream and report where they differ."""
import core


def front(ctx, mode, sources, label, model_ok=True, project=None):
    """token / syntax-tree level.  Returns (impl_blocks, disagreements[(src, impl, model)])."""
    impl = core.batch("impl", mode, sources)
    ctx.count(label + ":" + mode, len(sources))
    if not model_ok:
        return impl, []
    model = core.batch("model", mode, sources)
    ctx.cov["traces_validated_against_impl"] += len(sources)
    pj = project or (lambda b: b)
    dis = [(s, a, b) for s, a, b in zip(sources, impl, model) if pj(a) != pj(b)]
    if dis:
        ctx.cov["model_impl_disagreements"] += len(dis)
        dis.sort(key=lambda t: len(t[0]))
        s, a, b = dis[0]
        ctx.unproved(f"tie:{mode}", f"model and implementation differ on {len(dis)} of {len(sources)} inputs of stream {label}",
                     {"input": s, "impl": a[-2000:], "model": b[-2000:], "more_inputs": [d[0] for d in dis[1:6]]})
    return impl, dis


# ---------------------------------------------------------------------------- run level
import re as _re


def canon_stderr(e):
    """cut what LALRPOP's tables dictate: the `; expected …` tail and the Debug payload of a slot parse error"""
    e = _re.sub(r"; expected .*", "", e, flags=_re.S)
    e = _re.sub(r"(couldn't parse interpolation slot: ).*", r"\1", e, flags=_re.S)
    return e.rstrip("\n")


def proj_full(r):
    return (r["stdout"], r["status"], canon_stderr(r["stderr"]))


_POS = _re.compile(r"^[^\n:]*:(\d+:\d+):")
_TRACE = _re.compile(r"^  [^\n:]*:(\d+:\d+): in '([^']*)'$", _re.M)


def proj_out_pos(r):
    """stdout, status, position of the diagnostic and of every stack-trace line (no message text)"""
    e = r["stderr"]
    m = _POS.match(e)
    return (r["stdout"], r["status"], m.group(1) if m else ("" if not e else "nopos"), tuple(_TRACE.findall(e)))


def proj_out_status(r):
    return (r["stdout"], r["status"])


def run(ctx, sources, label, model_ok=True, project=proj_full, path="t.sd", fuel=3000000, reconfirm=True):
    """whole-run level: returns (impl_results, disagreements[(src, impl, model)]).
    Model time-outs are excluded (counted).  Disagreements are re-run through the unmodified CLI path and
    only count if the CLI agrees with the hook; 1 % of agreeing cases validate the hook itself."""
    impl = core.run_batch("impl", sources, path=path)
    ctx.count(label + ":run", len(sources))
    ctx.last_model = None
    if not model_ok:
        return impl, []
    model = core.run_batch("model", sources, path=path, fuel=fuel)
    ctx.last_model = model
    dis = []
    agree = []
    for s, a, b in zip(sources, impl, model):
        if b["status"] == "timeout" or b["status"].startswith("died"):
            ctx.exclude("model_timeout" if b["status"] == "timeout" else "model_resource_limit")
            continue
        ctx.cov["traces_validated_against_impl"] += 1
        if project(a) != project(b):
            dis.append((s, a, b))
        else:
            agree.append((s, a))
    if reconfirm and agree:
        # the batch hook mirrors `run` / `main` of src/main.rs; what those two do to a script (reading the file, exit status,
        # what goes to which stream) is only seen through the command line: a few hundred per stream, at ~2 ms each
        k = min(len(agree), max(200, len(agree) // 50))
        pick = ctx.rng.sample(agree, min(k, len(agree)))
        res = core.cli_batch([s for s, _ in pick], path=path)
        ctx.cov["cli_reconfirmed"] += len(pick)
        for (s, a), r in zip(pick, res):
            same = proj_full(r) == proj_full(a)
            if not same and r["status"] == a["status"] == "101" and r["stdout"] == a["stdout"]:
                same = True         # a panic: the hook reports the payload, the command line Rust's own report (with a backtrace
                                    # if the environment asks for one); the text is not comparable, the status and stdout are
            if not same:
                ctx.unproved("hook:run", "the batch hook and the command-line path differ", {"input": s, "hook": a, "cli": r})
                break
    if dis:
        confirmed = []
        res = core.cli_batch([s for s, _, _ in dis[:200]], path=path)
        ctx.cov["cli_reconfirmed"] += len(res)
        for (s, a, b), r in zip(dis, res):
            if proj_full(r) == proj_full(a) or (a["status"] == "101" and r["status"] == "101"):
                confirmed.append((s, a, b))
        dis = confirmed + dis[200:]
        if dis:
            ctx.cov["model_impl_disagreements"] += len(dis)
    return impl, dis


def report_disagreements(ctx, dis, label, level="run"):
    """no oracle failure explains them: the correspondence no longer checks"""
    if not dis:
        return
    dis = sorted(dis, key=lambda t: len(t[0]))
    s, a, b = dis[0]
    ctx.unproved(f"tie:{level}", f"model and implementation differ on {len(dis)} inputs of stream {label}",
                 {"input": s, "impl": a, "model": b, "more_inputs": [d[0] for d in dis[1:4]]})
