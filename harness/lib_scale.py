"""lib_scale.py — one small program per (dimension, size): the same construct at 24, 25, 40, 41, …, 1024, 1025, … 65,536 units of
one dimension of SIZE (length of a name, of a literal, of a key; number of statements, of items, of iterations, of jumps, of
blank lines; depth of nesting, of recursion, of a stack trace).  Sizes sit on both sides of the powers of two and of the round
numbers a hand-written limit would use.  Every program has an output that is a function of the size, computed here in Python
(no model involved).  Depth-like dimensions stop where the host stack of the unchanged interpreter is still far away.

cases(thorough) -> [(dimension, size, source, expected_stdout, expected_status)]"""

SIZES = [24, 25, 40, 41, 48, 49, 64, 65, 100, 127, 128, 129, 255, 256, 257, 1000, 1023, 1024, 1025, 2000, 2001, 4096, 4097,
         8191, 8192, 8193, 10000, 32768, 65536]
DEPTHS = [24, 25, 40, 41, 64, 65, 100, 127, 128, 129, 200]
MB = ["é", "€", "\U0001F600"]


def _render_list(items):
    return "[\n" + "".join(f"    {x},\n" for x in items) + "]\n"


def cases(thorough=False):
    out = []
    sizes = SIZES if thorough else [s for s in SIZES if s <= 10000]

    def add(dim, n, src, exp, st="0"):
        out.append((dim, n, src, exp, st))

    for n in sizes:
        name = "v" + "a" * (n - 1)
        add("name-length", n, f"{name} := 7\nprint({name} + 1)\n", "8\n")
        add("undefined-name-length", n, f"print(1)\nprint({name})\n", "1\n", "103")
        body = "x" * n
        add("string-literal-length", n, f's := "{body}"\nprint(s->len())\nprint(s == (s + ""))\n', f"{n}\ntrue\n")
        add("printed-line-length", n, f'print("{body}")\nprint("h\\n{body}")\nprint(["{body}"])\n', f"{body}\nh\n{body}\n[\n    {body},\n]\n")
        if n <= 1025:
            keys = [f"k{i}" for i in range(n)]
            first = ", ".join(f'"{k}": 0' for k in keys)
            second = ", ".join(f'"{k}": 1' for k in keys[::2])
            add("object-literal-later-entry-wins", n, f'o := {{{first}, {second}}}\nc := 0\nfor [k, v] in o {{\n    c += v\n}}\nprint(c)\nprint(o.k0)\n', f"{len(keys[::2])}\n1\n")
            add("object-spread-later-entry-wins", n, f'd := {{{first}}}\ne := {{{second}}}\no := {{d.., e..}}\np := {{e.., d..}}\nc := 0\nfor [k, v] in o {{\n    c += v\n}}\nprint(c)\nprint(p.k0)\n', f"{len(keys[::2])}\n0\n")
        add("comment-length", n, f"# {'c' * n}\nprint(1) # {'d' * n}\n", "1\n")
        add("blank-lines", n, "x := 1\n" + "\n" * n + "print(x)\n", "1\n")
        add("statements", n, "x := 0\n" + "x += 1\n" * n + "print(x)\n", f"{n}\n")
        add("list-items", n, "xs := [" + ", ".join(["1"] * n) + f"]\nc := 0\nfor [i, v] in xs {{\n    c += v\n}}\nprint(c)\nprint(xs[{n - 1}])\n", f"{n}\n1\n")
        add("loop-iterations", n, f"c := 0\nfor i in 0 .. {n} {{\n    c += 1\n}}\nprint(c)\n", f"{n}\n")
        add("while-iterations", n, f"c := 0\nwhile c < {n} {{\n    c += 1\n}}\nprint(c)\n", f"{n}\n")
        add("jumps-then-call", n, f"fn id(x) {{\n    return x\n}}\nc := 0\nfor i in 0 .. {n} {{\n    if true {{\n        c += 1\n        continue\n    }}\n}}\n"
            f"k := 0\nwhile true {{\n    k += 1\n    if k == {n} {{\n        {{\n            break\n        }}\n    }}\n}}\nprint(id(c) + id(k))\n", f"{2 * n}\n")
        add("returns-then-call", n, f"fn f(x) {{\n    if x > 0 {{\n        {{\n            return x\n        }}\n    }}\n    return 0\n}}\nc := 0\nfor i in 0 .. {n} {{\n    c += f(1)\n}}\nprint(c)\nprint(f(5))\n",
            f"{n}\n5\n")
        add("string-concat-growth", n, f's := ""\nfor i in 0 .. {n} {{\n    s += "a"\n}}\nprint(s->len())\n', f"{n}\n")
        if n <= 10000:
          add("list-concat-growth", n, f"xs := []\nfor [i, v] in 0 .. {n} {{\n    xs += [v]\n}}\nprint(xs[{n - 1}])\n", f"{n - 1}\n")
        if n <= 257:          # a chain is a left-nested tree: depth-like
            add("operator-chain", n, "print(" + " + ".join(["1"] * n) + ")\n", f"{n}\n")
        add("semicolons", n, "x := 1" + ";" * n + "print(x)\n", "1\n")
        if n <= 4097:
            if n <= 1025:
                add("object-keys", n, f'o := {{}}\ns := ""\nfor [i, v] in 0 .. {n} {{\n    s += "a"\n    o[s] = v\n}}\nc := 0\nfor [k, v] in o {{\n    c += 1\n}}\nprint(c)\nprint(o[s])\n',
                    f"{n}\n{n - 1}\n")
            add("parameters", n, "fn f(" + ", ".join(f"p{i}" for i in range(n)) + f") {{\n    return p0 + p{n - 1}\n}}\nprint(f(" + ", ".join(["1"] * n) + "))\n", "2\n")
            add("rest-arguments", n, "fn f(..r) {\n    c := 0\n    for [i, v] in r {\n        c += v\n    }\n    return c\n}\nprint(f(" + ", ".join(["1"] * n) + "))\n", f"{n}\n")
            add("slots", n, 'x := "a"\nprint($"' + "${x}" * n + '"->len())\n', f"{n}\n")
            add("escapes", n, 'print("' + "\\x41" * n + '"->len())\n', f"{n}\n")
        for ch in MB:
            w = len(ch.encode())
            for at in (n - w + 1, n - 1, n):           # the character straddles byte offset n, ends at it, starts at it
                if at < 0:
                    continue
                key = "k" * at + ch + "kk"
                add("missing-key-multibyte", n, f'o := {{"a": 1}}\nprint(1)\nprint(o["{key}"])\n', "1\n", "103")
                add("string-multibyte", n, f's := "{key}"\nprint(s->len())\n', f"{len(key.encode())}\n")
                add("mismatch-under-multibyte-key", n, f'a := {{"{key}": 1}}\nb := {{"{key}": "s"}}\nprint(1)\nprint(a == b)\n', "1\n", "103")
                add("undefined-after-multibyte", n, f'print(1)\ns := "{key}"; print(zz)\n', "1\n", "103")
    for d in DEPTHS:
        shallow = d <= 129          # depth of CALLS: the debug build's frames are large, 129 levels are still far from the stack's end
        add("paren-depth", d, "print(" + "(" * d + "1" + ")" * d + " + 1)\n", "2\n")
        add("list-depth", d, "xs := " + "[" * d + "7" + "]" * d + "\nprint(xs" + "[0]" * d + ")\n", "7\n")
        add("object-depth", d, "o := " + '{"k": ' * d + "7" + "}" * d + "\nprint(o" + ".k" * d + ")\n", "7\n")
        add("block-depth", d, "x := 1\n" + "{\n" * d + "x += 1\n" + "}\n" * d + "print(x)\n", "2\n")
        add("if-depth", d, "x := 1\n" + "if true {\n" * d + "x += 1\n" + "}\n" * d + "print(x)\n", "2\n")
        if shallow:
          add("recursion-depth", d, f"fn f(n) {{\n    if n == 0 {{\n        return 0\n    }}\n    return 1 + f(n - 1)\n}}\nprint(f({d}))\n", f"{d}\n")
        if shallow:
          add("trace-depth", d, f"fn f(n) {{\n    if n == 0 {{\n        return zz\n    }}\n    return f(n - 1)\n}}\nprint(1)\nprint(f({d}))\n", "1\n", "103")
        if shallow:
          add("call-chain-depth", d, "fn f(x) {\n    return x\n}\nprint(" + "f(" * d + "3" + ")" * d + ")\n", "3\n")
        add("index-nesting", d, "xs := [0]\nprint(" + "xs[" * d + "0" + "]" * d + ")\n", "0\n")
        add("slot-depth", min(d, 40), 'x := "a"\nprint(' + _nest_slots(min(d, 40)) + ")\n", "a\n")
    return out


def _nest_slots(d):
    s = "x"
    for _ in range(d):
        s = '$"${' + s + '}"'
    return s


def trace_lines(stderr):
    return [l for l in stderr.split("\n") if l.startswith("  ")]


QUICK_SIZES = {24, 25, 40, 41, 48, 49, 64, 65, 128, 129, 256, 257, 1024, 1025, 2000, 2001, 4096}


def run_stream(ctx, core, what, judge, max_reports=3):
    """run the cases on the implementation (batch hook, failures re-run through the plain command line) and report the
    failures of `judge(case, result) -> (ok, why)`; one report per dimension"""
    thorough = ctx.tier == "thorough"
    cs = [c for c in cases(thorough) if thorough or c[1] in QUICK_SIZES or c[1] in DEPTHS]
    rs = core.run_batch("impl", [c[2] for c in cs])
    ctx.count("scale:run", len(cs))
    seen = set()
    for c, r in zip(cs, rs):
        ctx.nontrivial(("scale", c[0], c[1]))
        ctx.dist("scale:" + c[0])
        ok, why = judge(c, r)
        if ok or c[0] in seen or len(seen) >= max_reports:
            continue
        r2 = core.run_cli(c[2])
        ctx.cov["cli_reconfirmed"] = ctx.cov.get("cli_reconfirmed", 0) + 1
        ok2, why2 = judge(c, r2)
        if ok2:
            continue
        seen.add(c[0])
        ctx.violation(f"{what}: {c[0]} at size {c[1]}: {why2}", c[2], {"cli": {k: v[:400] for k, v in r2.items()}, "dimension": c[0], "size": c[1],
                                                                       "expected_stdout": c[3][:200], "expected_status": c[4]})
    if cs:
        ctx.sample({"stream": "scale", "dimension": cs[len(cs) // 2][0], "size": cs[len(cs) // 2][1], "src": cs[len(cs) // 2][2][:200]})
