"""lib_ints_values.py — pool of small nested values for C10, each as (shape, recipe): the *shape* is a Python value
(None / bool / int / str / list / dict), the *recipe* says how the script builds it (fresh literal, other insertion order,
step by step, through shared children, as a spread copy, behind an alias)."""
import itertools
import json

LEAVES = [None, True, False, 0, 1, "", "a", [], {}]
RECIPES = ["lit", "rev", "step", "share", "spread", "alias"]


def kind_of(s):
    if s is None:
        return "null"
    if isinstance(s, bool):
        return "bool"
    if isinstance(s, int):
        return "int"
    if isinstance(s, str):
        return "string"
    if isinstance(s, list):
        return "list"
    if isinstance(s, dict):
        return "object"
    raise ValueError(s)


def key(s):
    """canonical hashable form of a shape (object keys sorted; True/1 kept apart)"""
    k = kind_of(s)
    if k == "list":
        return ("l",) + tuple(key(c) for c in s)
    if k == "object":
        return ("o",) + tuple((n, key(s[n])) for n in sorted(s))
    return (k, s)


def depth(s):
    if isinstance(s, list):
        return 1 + max([depth(c) for c in s], default=0)
    if isinstance(s, dict):
        return 1 + max([depth(c) for c in s.values()], default=0)
    return 0


def is_container(s):
    return isinstance(s, (list, dict))


def lit(s, rev=False):
    k = kind_of(s)
    if k == "null":
        return "null"
    if k == "bool":
        return "true" if s else "false"
    if k == "int":
        return str(s)
    if k == "string":
        return json.dumps(s)
    if k == "list":
        return "[" + ", ".join(lit(c, rev) for c in s) + "]"
    names = sorted(s, reverse=rev)
    return "{" + ", ".join(f"{json.dumps(n)}: {lit(s[n], rev)}" for n in names) + "}"


def has_order_variant(s):
    if isinstance(s, dict):
        return len(s) > 1 or any(has_order_variant(c) for c in s.values())
    if isinstance(s, list):
        return any(has_order_variant(c) for c in s)
    return False


def has_container_child(s):
    cs = s if isinstance(s, list) else list(s.values()) if isinstance(s, dict) else []
    return any(is_container(c) for c in cs)


class Builder:
    """emits the statements that build values; children built with recipe `share` are reused for equal shapes"""

    def __init__(self):
        self.lines = []
        self.n = 0
        self.shared = {}

    def fresh(self, p="v"):
        self.n += 1
        return f"{p}{self.n}"

    def build(self, s, recipe, top=True):
        if not is_container(s) or recipe == "lit":
            return lit(s)
        if recipe == "rev":
            return lit(s, rev=True)
        if recipe == "spread":
            return "[" + lit(s) + "..]" if isinstance(s, list) else "{" + lit(s) + "..}"
        if recipe == "alias":
            t = self.fresh("t")
            self.lines.append(f"{t} := {lit(s)}")
            return t
        if recipe == "step":
            name = self.fresh()
            if isinstance(s, list):
                self.lines.append(f"{name} := []")
                for c in s:
                    self.lines.append(f"{name} += [{self.build(c, 'step', False)}]")
            else:
                self.lines.append(f"{name} := {{}}")
                for i, n in enumerate(sorted(s, reverse=True)):
                    e = self.build(s[n], "step", False)
                    self.lines.append(f"{name}[{json.dumps(n)}] = {e}" if i % 2 == 0 else f"{name}.{n} = {e}")
            return name
        if recipe == "share":
            if top and key(s) in self.shared:
                return self.shared[key(s)]          # the other operand holds this very container as a child
            def child(c):
                if not is_container(c):
                    return lit(c)
                k = key(c)
                if k not in self.shared:
                    e = self.build(c, "share", False)
                    name = self.fresh("c")
                    self.lines.append(f"{name} := {e}")
                    self.shared[k] = name
                return self.shared[k]
            if isinstance(s, list):
                return "[" + ", ".join(child(c) for c in s) + "]"
            return "{" + ", ".join(f"{json.dumps(n)}: {child(s[n])}" for n in sorted(s)) + "}"
        raise ValueError(recipe)


def recipes_for(s):
    if not is_container(s):
        return ["lit"]
    out = ["lit", "alias"]
    if has_order_variant(s):
        out.append("rev")
    if has_container_child(s):
        out.append("share")
    if len(s) > 0:
        out += ["step", "spread"]
    return out


# ---------------------------------------------------------------------------- the pool of shapes
CORE = [None, True, 0, 1, "a", [], {}]
FIXED = [
    [[]], [[[]]], [[], []], [[0], [0]], [[0], [1]], [[0], ["a"]], [[0], 0], [0, [0]], [{}], [{"a": 0}], [{"a": 0}, {"a": 0}],
    {"a": []}, {"a": [0]}, {"a": [0], "b": [0]}, {"a": {"a": 0}}, {"a": {"a": 0}, "b": {"a": 0}}, {"a": {"b": 0}},
    {"a": 1, "b": 2}, {"b": "s", "c": 1}, {"a": 1, "c": 2}, {"b": 2, "a": "s"}, {"a": [0, 1]}, {"a": [1, 0]},
    [[0, 1], [0, 1]], [[0, 1], [1, 0]], [[[0]]], [[["a"]]], [[[0]], [[0]]], [{"a": [0]}], [{"a": [{}]}], {"a": [{"a": []}]},
    [[0, [1, [0]]]], {"a": {"a": {"a": 1}}}, {"a": {"a": {"a": "a"}}}, [[{"a": 1, "b": [0]}]], [[{"b": [0], "a": 1}]],
    [0, 1], [1, 0], [0, "a"], ["a", 0], [None, 0], [True, 1], [1, True], {"a": True}, {"a": 1}, {"a": None}, {"b": 1},
    # same skeleton, different contents (answers `false` rather than an error)
    [0], [1], [0, 0], [1, 1], ["a"], [""], ["a", ""], ["", "a"], [True], [False], [True, False], [[1]], [[0], [0, 0]],
    {"a": 0}, {"a": 0, "b": 0}, {"a": 0, "b": 1}, {"a": 1, "b": 1}, {"b": 0}, {"b": 0, "c": 0}, {"a": "a"}, {"a": ""},
    {"a": [1]}, {"a": {"a": 1}}, {"a": [0], "b": [1]}, [{"a": 1}], [{"a": 1}, {"a": 0}], [[0, 0], [0, 1]],
]


def all_depth1():
    out = []
    for x in LEAVES:
        out.append([x])
        out.append({"a": x})
    for x, y in itertools.product(CORE, repeat=2):
        out.append([x, y])
        out.append({"a": x, "b": y})
    for x in CORE[:5]:
        out.append({"b": x})
        out.append({"b": x, "c": 0})
    return out


def shape_pool(rng, n_shapes):
    """leaves + the fixed core + a seeded sample of depth-1 values and of depth-2/3 values built from them"""
    pool = {}

    def add(s):
        pool.setdefault(key(s), s)
    for s in LEAVES + FIXED:
        add(s)
    d1 = all_depth1()
    rng.shuffle(d1)
    for s in d1[: max(0, (n_shapes - len(pool)) // 2)]:
        add(s)
    base = list(pool.values())
    tries = 0
    while len(pool) < n_shapes and tries < 20 * n_shapes:
        tries += 1
        w = rng.choice([1, 2, 2])
        cs = [rng.choice(base) for _ in range(w)]
        if rng.random() < 0.35 and w == 2:
            cs[1] = cs[0]                              # equal children: candidates for a shared child
        s = cs if rng.random() < 0.5 else dict(zip(rng.sample(["a", "b", "c"], w), cs))
        if depth(s) <= 3:
            add(s)
    return list(pool.values())


def value_pool(rng, n_shapes, n_values):
    """(shape, recipe) pairs: every shape as a literal, plus seeded other recipes up to about n_values"""
    shapes = shape_pool(rng, n_shapes)
    vals = [(s, "lit") for s in shapes]
    extra = [(s, r) for s in shapes for r in recipes_for(s) if r != "lit"]
    rng.shuffle(extra)
    # every recipe kind must be present, and every fixed shape gets all of its recipes
    must = [(s, r) for s in FIXED[:20] for r in recipes_for(s) if r != "lit"]
    seen = set()
    out = list(vals)
    for s, r in must + extra:
        k = (key(s), r)
        if k in seen:
            continue
        if len(out) >= n_values and (s, r) not in must:
            break
        seen.add(k)
        out.append((s, r))
    return out
