"""gens.py — input streams shared by several properties (all deterministic in the rng passed in)."""
import itertools
import suite

ALPHA30 = list("}{][:,/.=><%*)(-+") + list('!&|$"\\#a1_ \n') + ["é", "²", "λ", "\u00a0"]
PUNCT = list("}{][:,/.=><%*)(-+!&|$\"\\#; \n\t\r") + ["..", "->", ":=", "==", "===", "!==", "fn", "if", "else", "for", "in",
                                                        "while", "return", "break", "1", "a", "_", "é", "€", "😀", "\\x", "${",
                                                        "$\"", "\\"]


def short_strings(maxlen, alphabet=ALPHA30):
    return ["".join(p) for n in range(0, maxlen + 1) for p in itertools.product(alphabet, repeat=n)]


def seed_programs():
    return [t["src"] for t in suite.suite_tests()] + suite.doc_examples()


def truncations(srcs, rng=None, limit=None):
    out = []
    for s in srcs:
        for i in range(len(s)):
            out.append(s[:i])
    if limit is not None and len(out) > limit:
        out = rng.sample(out, limit)
    return out


def mutations(srcs, rng, per=10):
    out = []
    for s in srcs:
        for _ in range(per):
            i = rng.randrange(len(s) + 1)
            j = min(len(s), i + rng.choice([0, 0, 1, 1, 2, 5]))
            out.append(s[:i] + rng.choice(PUNCT) + s[j:])
    return out


def random_unicode(rng, n, maxlen=12):
    pool = list("ab1_ \n\t\"$\\{}()[];#!&|.=") + [
        "é", "ß", "€", "中", "😀", "\u00a0", "\u2028", "\x0b", "\x0c", "\x00", "\x7f", "\ufeff",
        # numerics, letters, titlecase, spaces, joiners, combining marks, bidi controls outside ASCII
        "²", "½", "\u0663", "\u2167", "\u096b", "λ", "Ж", "\u01c5", "\u3000", "\u200d", "\u0301", "\u202e", "ª"]
    return ["".join(rng.choice(pool) for _ in range(rng.randrange(1, maxlen))) for _ in range(n)]


def unterminated():
    heads = ['"', '$"', 'x := "', 'print($"a', '"\\', '"\\x', '"\\x4', '$"${', '$"${a', '$"${{', '$"a${b}c${', '"é', '$"é${',
             '$', '$a', '$ab"', '$"$', '$"$a', '"$', '"\\q', '"\\xg', '"\\x4g', "$\"${'}\"", '$"${"}"}"',
             # every keyword where an operand is expected (exercises the rendering of each token kind in parse messages)
             'x := continue', 'x := break', 'x := else', 'x := in', 'x := while', 'x := for', 'x := return', 'x := if', 'if', 'fn']
    return heads + [h + "\n" for h in heads] + ["print(1)\n" + h for h in heads]
