#!/bin/sh
# MANIFEST.setup_cmd — builds the framework from files on disk only (offline).
set -e
cd "$(dirname "$0")"
mkdir -p .build evidence
export CARGO_NET_OFFLINE=true
python3 tools/extract.py /repo lean/SeedModel/Generated.lean --json .build/tables.json || true
(cd lean && lake build SeedModel seedmodel SeedProofs) || true
(cd /repo && RUSTFLAGS="--cfg seed_verif" cargo build --offline --target-dir /verif/.build/target) || true
echo "setup done"
