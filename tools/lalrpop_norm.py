"""lalrpop_norm.py — a small reader of LALRPOP grammars that NORMALISES productions, so that tables can be read off the
grammar by what it derives and not by how it is written:

* binding names (`<x:Sym>`, `<mut x:Sym>`, `<Sym>`), position markers (`@L`, `@R`) and `pub` are dropped;
* macros (rules with parameters) and `#[inline]` rules are expanded on request;
* the order of alternatives does not matter to the callers.

A symbol is a tuple: ("lit", text) | ("nt", name, (args…)) | ("grp", (syms…)) | ("opt"|"star"|"plus", sym).
An alternative is (symbols, action_text)."""
import re


class GrammarError(Exception):
    pass


TOKEN = re.compile(r'''\s*(?:(?P<str>"(?:[^"\\]|\\.)*")|(?P<arrow>=>)|(?P<thin>->)|(?P<at>@[LR])|(?P<id>[A-Za-z_]\w*)|(?P<p>.))''', re.S)


def strip_comments(text):
    out, i = [], 0
    while i < len(text):
        if text[i] == '"':
            j = i + 1
            while j < len(text) and (text[j] != '"' or text[j - 1] == "\\"):
                j += 1
            out.append(text[i:j + 1])
            i = j + 1
        elif text.startswith("//", i):
            j = text.find("\n", i)
            i = len(text) if j < 0 else j
        else:
            out.append(text[i])
            i += 1
    return "".join(out)


def tokenize(text):
    """[(kind, text, preceded_by_space)]"""
    toks, i = [], 0
    while i < len(text):
        m = TOKEN.match(text, i)
        if not m or m.end() == i:
            break
        sp = m.start(m.lastgroup) > i or i == 0
        if m.lastgroup == "p" and m.group("p").isspace():
            i = m.end()
            continue
        toks.append((m.lastgroup, m.group(m.lastgroup), sp))
        i = m.end()
    return toks


def split_rules(text):
    """{name: (params, inline, body_text)}: rule headers start in column 0"""
    text = strip_comments(text)
    cut = re.search(r"(?m)^extern\s*\{", text)
    if cut:
        text = text[:cut.start()]
    rules = {}
    head = re.compile(r"(?m)^((?:#\[[^\]]*\]\s*\n)*)(?:pub\s+)?([A-Za-z_]\w*)(<[^>\n]*>)?\s*(?::[^=\n]*(?:\n[^=\n]*)?)?=(?!>)")
    pos = 0
    while True:
        m = head.search(text, pos)
        if not m:
            break
        name = m.group(2)
        if name in ("use", "grammar"):
            pos = m.end()
            continue
        params = tuple(p.strip() for p in m.group(3)[1:-1].split(",")) if m.group(3) else ()
        inline = "inline" in (m.group(1) or "")
        i = m.end()
        while text[i].isspace():
            i += 1
        if text[i] == "{":
            depth, j = 0, i
            while True:
                ch = text[j]
                if ch == '"':
                    j += 1
                    while text[j] != '"' or text[j - 1] == "\\":
                        j += 1
                elif ch == "{":
                    depth += 1
                elif ch == "}":
                    depth -= 1
                    if depth == 0:
                        break
                j += 1
            body, pos = text[i + 1:j], j + 1
        else:
            depth, j = 0, i
            while not (text[j] == ";" and depth == 0):
                if text[j] == '"':
                    j += 1
                    while text[j] != '"' or text[j - 1] == "\\":
                        j += 1
                elif text[j] in "({[":
                    depth += 1
                elif text[j] in ")}]":
                    depth -= 1
                j += 1
            body, pos = text[i:j], j + 1
        rules[name] = (params, inline, body)
    return rules


def split_alts(body):
    """alternatives of a rule body: [(symbol tokens, action text)]"""
    toks = tokenize(body)
    alts, cur, act, state = [], [], [], "sym"
    par = ang = 0
    for t in toks:
        kind, txt, sp = t
        if state == "sym":
            if kind == "arrow" and par == 0 and ang == 0:
                state = "act"
                par = 0
                continue
            if kind == "p":
                if txt in "([":
                    par += 1
                elif txt in ")]":
                    par -= 1
                elif txt == "<":
                    ang += 1
                elif txt == ">":
                    ang -= 1
                elif txt == "," and par == 0 and ang == 0:
                    if cur:
                        alts.append((cur, ""))
                    cur = []
                    continue
            cur.append(t)
        else:
            if kind == "p":
                if txt in "([{":
                    par += 1
                elif txt in ")]}":
                    par -= 1
                elif txt == "," and par == 0:
                    alts.append((cur, " ".join(a[1] for a in act)))
                    cur, act, state = [], [], "sym"
                    continue
            act.append(t)
    if cur or act:
        alts.append((cur, " ".join(a[1] for a in act)))
    return alts


class SymParser:
    def __init__(self, toks):
        self.t, self.i = toks, 0

    def peek(self):
        return self.t[self.i] if self.i < len(self.t) else None

    def seq(self, stop=None):
        out = []
        while self.peek() is not None and not (stop and self.peek()[0] == "p" and self.peek()[1] in stop):
            s = self.sym()
            if s is not None:
                out.append(s)
        return tuple(out)

    def sym(self):
        kind, txt, sp = self.t[self.i]
        self.i += 1
        if kind == "at":
            return None
        if kind == "str":
            s = ("lit", txt[1:-1])
        elif kind == "id":
            args = ()
            nxt = self.peek()
            if nxt and nxt[0] == "p" and nxt[1] == "<" and not nxt[2]:       # macro arguments: `Name<…>` without a blank
                self.i += 1
                lst = []
                while True:
                    lst.append(self.one_or_seq((",", ">")))
                    sep = self.t[self.i]
                    self.i += 1
                    if sep[1] == ">":
                        break
                args = tuple(lst)
            s = ("nt", txt, args)
        elif kind == "p" and txt == "<":                                    # a binding: <name:Sym>, <mut name:Sym>, <Sym>
            if self.peek()[0] == "id" and self.peek()[1] == "mut":
                self.i += 1
            if self.peek()[0] == "id" and self.i + 1 < len(self.t) and self.t[self.i + 1][1] == ":" and self.t[self.i + 1][0] == "p":
                self.i += 2
            inner = self.seq(stop=(">",))
            self.i += 1
            s = inner[0] if len(inner) == 1 else ("grp", inner)
            if not inner:
                return None
        elif kind == "p" and txt == "(":
            inner = self.seq(stop=(")",))
            self.i += 1
            s = ("grp", inner)
        else:
            raise GrammarError(f"unexpected {txt!r} in a production")
        while self.peek() is not None and self.peek()[0] == "p" and self.peek()[1] in "?*+":
            s = ({"?": "opt", "*": "star", "+": "plus"}[self.peek()[1]], s)
            self.i += 1
        return s

    def one_or_seq(self, stop):
        inner = self.seq(stop=stop)
        return inner[0] if len(inner) == 1 else ("grp", inner)


class Grammar:
    def __init__(self, text):
        self.raw = split_rules(text)
        self.rules = {}
        for name, (params, inline, body) in self.raw.items():
            alts = []
            for toks, action in split_alts(body):
                alts.append((SymParser(toks).seq(), action))
            self.rules[name] = (params, inline, alts)

    def subst(self, s, env):
        k = s[0]
        if k == "lit":
            return s
        if k == "nt":
            if s[1] in env and not s[2]:
                return env[s[1]]
            return ("nt", s[1], tuple(self.subst(a, env) for a in s[2]))
        if k == "grp":
            return ("grp", tuple(self.subst(x, env) for x in s[1]))
        return (k, self.subst(s[1], env))

    def expand(self, s, keep=()):
        """expand `#[inline]` rules and macros (except those named in `keep`) that have a single alternative"""
        k = s[0]
        if k == "lit":
            return (s,)
        if k == "grp":
            inner = tuple(y for x in s[1] for y in self.expand(x, keep))
            return inner if len(inner) == 1 else (("grp", inner),)
        if k in ("opt", "star", "plus"):
            inner = self.expand(s[1], keep)
            return ((k, inner[0] if len(inner) == 1 else ("grp", inner)),)
        name, args = s[1], s[2]
        r = self.rules.get(name)
        if r is None or name in keep:
            return (("nt", name, tuple(self.expand1(a, keep) for a in args)),)
        params, inline, alts = r
        if (params or inline) and len(alts) == 1 and len(params) == len(args):
            env = dict(zip(params, args))
            return tuple(y for x in alts[0][0] for y in self.expand(self.subst(x, env), keep))
        return (("nt", name, tuple(self.expand1(a, keep) for a in args)),)

    def expand1(self, s, keep):
        e = self.expand(s, keep)
        return e[0] if len(e) == 1 else ("grp", e)

    def alts(self, name, args=(), keep=()):
        """normalised alternatives of `name` (instantiated with `args`): [(symbols, action)]"""
        params, inline, alts = self.rules[name]
        env = dict(zip(params, args))
        out = []
        for syms, action in alts:
            flat = tuple(y for x in syms for y in self.expand(self.subst(x, env), keep))
            out.append((flat, action))
        return out
