#!/usr/bin/env python3
"""extract.py — the translator half of the tie between /repo and the Lean model.

Reads table-shaped code from the Rust / LALRPOP sources and regenerates
lean/SeedModel/Generated.lean.  It is table-to-table: no semantics is invented here.
Every recogniser fails loudly (ExtractError) when the source shape is not the one it
knows, instead of guessing.  Usage:  extract.py <repo> <out.lean> [--json <out.json>]
"""
import json
import re
import sys
from pathlib import Path


class ExtractError(Exception):
    def __init__(self, table, why):
        super().__init__(f"extract:{table}: {why}")
        self.table = table
        self.why = why


def strip_comments(src: str) -> str:
    out = []
    for line in src.split("\n"):
        # good enough for this code base: `//` never occurs inside a string literal of a table
        i = line.find("//")
        if i >= 0 and line[:i].count('"') % 2 == 0:
            line = line[:i]
        out.append(line)
    return "\n".join(out)


def fn_body(src: str, name: str, table: str) -> str:
    m = re.search(r"fn\s+" + re.escape(name) + r"\s*[(<]", src)
    if not m:
        raise ExtractError(table, f"function `{name}` not found")
    i = src.index("{", m.end())
    # skip to the opening brace of the body (after the signature)
    depth = 0
    j = i
    while j < len(src):
        if src[j] == "{":
            depth += 1
        elif src[j] == "}":
            depth -= 1
            if depth == 0:
                return src[i + 1 : j]
        elif src[j] == "'" and j + 2 < len(src) and src[j + 2] == "'":
            j += 2  # char literal like '{'
        elif src[j] == '"':
            k = j + 1
            while src[k] != '"' or src[k - 1] == "\\":
                k += 1
            j = k
        j += 1
    raise ExtractError(table, f"unbalanced braces in `{name}`")


def lean_char(c: str) -> str:
    if c == "'":
        return "'\\''"
    if c == "\\":
        return "'\\\\'"
    return f"'{c}'"


def lean_chars(s: str) -> str:
    return "[" + ", ".join(lean_char(c) for c in s) + "]"


def rust_char(tok: str, table: str) -> str:
    # tok is the inside of a Rust char literal
    if len(tok) == 1:
        return tok
    if tok == "\\'":
        return "'"
    if tok == "\\\\":
        return "\\"
    raise ExtractError(table, f"unsupported char literal {tok!r}")


# --------------------------------------------------------------------------- lexer
def lexer_tables(repo: Path):
    src = strip_comments((repo / "src/lexer/mod.rs").read_text())
    # Token enum (names only, in order)
    m = re.search(r"pub enum Token\s*\{(.*?)\n\}", src, re.S)
    if not m:
        raise ExtractError("tokens", "enum Token not found")
    tokens = re.findall(r"^\s*([A-Z][A-Za-z]*)\b", m.group(1), re.M)

    # The tables are located by SHAPE, not by the name of the function they sit in (functions get renamed and moved):
    # a symbol table is a function whose whole body is a `match` from character (tuple) patterns to `Some(Token::…)` with a
    # `_ => None` default; the keyword table is the `match` from string literals to `Token::…` with an identifier default;
    # the continuation set is the longest or-pattern of `Token::…` alternatives.
    fns = [(m.group(1), m.start()) for m in re.finditer(r"\bfn\s+(\w+)\s*[(<]", src)]

    def bodies():
        for name, _ in fns:
            try:
                yield name, fn_body(src, name, name)
            except ExtractError:
                continue

    def sym_table(arity, label):
        if arity == 1:
            pat = r"'((?:\\.|[^'\\]))'\s*=>\s*Some\(Token::(\w+)\)"
        else:
            pat = r"\(" + r",\s*".join([r"'((?:\\.|[^'\\]))'"] * arity) + r"\)\s*=>\s*Some\(Token::(\w+)\)"
        found = []
        for name, body in bodies():
            rows = []
            for mm in re.finditer(pat, body):
                chars = [rust_char(g, label) for g in mm.groups()[:-1]]
                rows.append(("".join(chars), mm.group(arity + 1)))
            arms = body.count("=>")
            if rows and arms == len(rows) + 1 and re.search(r"_\s*=>\s*None", body):
                found.append((name, rows))
        # … or a constant table of (characters, token) pairs that is searched by a lookup function
        if arity == 1:
            cpat, ty = r"\(\s*'((?:\\.|[^'\\]))'\s*,\s*Token::(\w+)\s*\)", r"\(\s*char\s*,\s*Token\s*\)"
        else:
            cpat = r"\(\s*\(" + r",\s*".join([r"'((?:\\.|[^'\\]))'"] * arity) + r"\)\s*,\s*Token::(\w+)\s*\)"
            ty = r"\(\s*\(" + r",\s*".join(["char"] * arity) + r"\)\s*,\s*Token\s*\)"
        for cm in re.finditer(r"\b(?:const|static)\s+(\w+)\s*:\s*&(?:'static\s+)?\[\s*" + ty + r"\s*(?:;\s*\d+\s*)?\]\s*=\s*&?\[(.*?)\]\s*;", src, re.S):
            rows = [("".join(rust_char(g, label) for g in mm.groups()[:-1]), mm.group(arity + 1)) for mm in re.finditer(cpat, cm.group(2))]
            if rows and len(rows) == cm.group(2).count("Token::"):
                found.append((cm.group(1), rows))
        if len(found) != 1:
            raise ExtractError(label, f"expected exactly one {arity}-character symbol table (a function that is one match "
                                      f"to `Some(Token::…)` with `_ => None`), found {[n for n, _ in found]}")
        return found[0][1]

    single = sym_table(1, "match_single_symbol_token")
    double = sym_table(2, "match_double_symbol_token")
    triple = sym_table(3, "match_triple_symbol_token")

    kw_tables = []
    for mm in re.finditer(r"match \w+ \{((?:\s*\"\w+\"\s*=>\s*Token::\w+\s*,)+)\s*_\s*=>\s*Token::Ident\((\w+)\.to_string\(\)\)\s*,?\s*\}", src):
        kw_tables.append(re.findall(r'"(\w+)"\s*=>\s*Token::(\w+)\s*,', mm.group(1)))
    for cm in re.finditer(r"\b(?:const|static)\s+\w+\s*:\s*&(?:'static\s+)?\[\s*\(\s*&(?:'static\s+)?str\s*,\s*Token\s*\)\s*(?:;\s*\d+\s*)?\]\s*=\s*&?\[(.*?)\]\s*;", src, re.S):
        rows = re.findall(r'\(\s*"(\w+)"\s*,\s*Token::(\w+)\s*\)', cm.group(1))
        if rows and len(rows) == cm.group(1).count("Token::") and "Token::Ident(" in src:
            kw_tables.append(rows)
    if len(kw_tables) != 1:
        raise ExtractError("keywords", f"expected exactly one keyword match (string literals to Token::… with an identifier "
                                       f"default), found {len(kw_tables)}")
    kws = kw_tables[0]

    # continuation set: the longest or-pattern `Token::A | Token::B | …`
    ors = re.findall(r"(?:Token::\w+(?:\([^)]*\))?\s*\|\s*){9,}Token::\w+(?:\([^)]*\))?", src)
    # … or a constant list of tokens that is asked with `.contains(…)`
    clists = [(cm.group(1), cm.group(2)) for cm in
              re.finditer(r"\b(?:const|static)\s+(\w+)\s*:\s*&(?:'static\s+)?\[\s*Token\s*(?:;\s*\d+\s*)?\]\s*=\s*&?\[((?:\s*Token::\w+\s*,?)+)\s*\]\s*;", src)]
    if len(ors) == 1 and not clists:
        cont = re.findall(r"Token::(\w+)", ors[0])
        tail = src[src.index(ors[0]) + len(ors[0]):][:400]
        # what the pattern guards: either the original `=> {}` arm with `_ => return Some(Ok(span))`, or a boolean helper
        if not (re.match(r"\s*=>\s*\{\s*\}\s*,\s*_\s*=>\s*\{\s*return Some\(Ok\(span\)\);", tail)
                or re.match(r"\s*=>\s*true\s*,\s*_\s*=>\s*false", tail) or re.match(r"\s*\)", tail)):
            raise ExtractError("continuation", f"the long or-pattern of tokens is not used as the suppression test: {tail[:80]!r}")
    elif not ors and len(clists) == 1 and re.search(r"!\s*" + clists[0][0] + r"\.contains\(", src):
        cont = re.findall(r"Token::(\w+)", clists[0][1])
    else:
        raise ExtractError("continuation", f"expected exactly one long or-pattern of tokens or one constant token list asked with "
                                           f"`!….contains(…)` (the terminator-suppression set), found {len(ors)} / {len(clists)}")
    for name in [t for _, t in single + double + triple + kws] + cont:
        if name not in tokens:
            raise ExtractError("tokens", f"Token::{name} used in a table but not declared")
    # a canonical order: reordering match arms / table rows / alternatives of the or-pattern changes nothing
    return dict(tokens=tokens, single=sorted(single), double=sorted(double), triple=sorted(triple), keywords=sorted(kws),
                continuation=sorted(dict.fromkeys(cont)))


def emit(tables) -> str:
    L = []
    L.append("/-  GENERATED by /verif/tools/extract.py from /repo/src — do not edit by hand.")
    L.append("    Regenerated on every check run; theorems over these tables are re-checked")
    L.append("    against what the source says now. -/")
    L.append("import SeedModel.Token")
    for imp in tables.get("extra_imports", []):
        L.append(imp)
    L.append("namespace Seed.Gen")
    L.append("open Seed")
    L.append("")
    lx = tables["lexer"]
    L.append("def singleSym : List (Char × Token) := [")
    L.append(",\n".join(f"  ({lean_char(c)}, Token.{t})" for c, t in lx["single"]))
    L.append("]\n")
    L.append("def doubleSym : List ((Char × Char) × Token) := [")
    L.append(",\n".join(f"  (({lean_char(c[0])}, {lean_char(c[1])}), Token.{t})" for c, t in lx["double"]))
    L.append("]\n")
    L.append("def tripleSym : List ((Char × Char × Char) × Token) := [")
    L.append(",\n".join(f"  (({lean_char(c[0])}, {lean_char(c[1])}, {lean_char(c[2])}), Token.{t})" for c, t in lx["triple"]))
    L.append("]\n")
    L.append("def keywords : List (List Char × Token) := [")
    L.append(",\n".join(f"  ({lean_chars(k)}, Token.{t})" for k, t in lx["keywords"]))
    L.append("]\n")
    L.append("/-- tokens after which a statement terminator is suppressed (besides a first or repeated terminator) -/")
    L.append("def continuation : List Token := [")
    L.append(",\n".join(f"  Token.{t}" for t in lx["continuation"]))
    L.append("]\n")
    for extra in tables.get("extra_lean", []):
        L.append(extra)
    L.append("end Seed.Gen")
    return "\n".join(L) + "\n"


def extract_all(repo: Path):
    tables = {"lexer": lexer_tables(repo)}
    try:
        import extract_more  # optional extension module living next to this file
        extract_more.extend(repo, tables)
    except ImportError:
        pass
    return tables


def main(argv):
    if len(argv) < 3:
        print(__doc__)
        return 2
    repo, out = Path(argv[1]), Path(argv[2])
    try:
        tables = extract_all(repo)
    except Exception as e:
        if type(e).__name__ != "ExtractError":      # (extract_more sees this module under another name)
            raise
        print(str(e), file=sys.stderr)
        return 3
    text = emit(tables)
    if not out.exists() or out.read_text() != text:
        out.write_text(text)
    if "--json" in argv:
        jp = Path(argv[argv.index("--json") + 1])
        tables.pop("extra_lean", None)
        tables.pop("extra_imports", None)
        jp.write_text(json.dumps(tables, indent=1))
    return 0


if __name__ == "__main__":
    sys.path.insert(0, str(Path(__file__).parent))
    sys.exit(main(sys.argv))
