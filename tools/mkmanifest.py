#!/usr/bin/env python3
"""mkmanifest.py — (re)writes /verif/MANIFEST.json from the table below; run after claiming a property."""
import json
from pathlib import Path

VERIF = Path(__file__).resolve().parent.parent
BASE_NOTE = ("Trusted: Lean 4.33.0 kernel; axioms ⊆ {propext, Classical.choice, Quot.sound} (audited per run with #print axioms; no "
             "sorry/admit/axiom/native_decide); tools/extract.py (table translator: symbol/keyword/continuation/tier tables, error "
             "templates, wrapper and peel lists, type-name tables); the hand-written Lean model of scanner, lexer, parser, evaluator "
             "and diagnostic renderer is tied to /repo by differential runs on the streams named in the evidence (test-level "
             "strength, never standing in for a theorem); LALRPOP's automaton, Rust std and the OS are not modelled.")

CLAIMS = {
 "C02": dict(text="Theorems about the model (arithmetic cannot crash at any operand incl. zero divisors and i64 extremes; …) checked by the Lean "
                  "kernel; the model is tied to the code by run-level correspondence on the exhaustive alias-shape × operator product, the "
                  "extreme-integer grid, multi-byte string/interpolation literals and generated programs; a model-free oracle "
                  "(exit status ∈ {0,103}, no panic) turns a broken tie into a concrete crashing input.",
             ref="§6 C02", technique="Lean 4 theorems on the model + differential model/implementation correspondence + crash oracle"),
 "C03": dict(text="Lean theorems: the lexer always makes progress, its fuel is always enough (termination for every input), every reported "
                  "token/error line lies in 1..1+#newlines; the model is tied by token- and tree-level correspondence, exhaustive over all "
                  "strings of length ≤3 (quick) / ≤4 (thorough) over a 30-character alphabet plus truncations/mutations/Unicode; CLI oracle "
                  "checks one `<path>:<l>:<c>: msg` diagnostic, status 103, empty stdout, line bound, read errors for invalid UTF-8.",
             ref="§6 C03", technique="Lean 4 theorems on the lexer model + exhaustive short-input tok/ast correspondence + CLI format oracle"),
 "C07": dict(text="Lean theorems on the evaluator model: a jump escapes any context of prefixes, blocks and taken branches "
                  "unchanged (`jump_through_ctx`), `break`/`continue`/`return` inside a `while`/`for` body act on exactly that loop (exit, "
                  "re-test / next pair, propagate) through any such context and for nested loops the innermost one "
                  "(`break_targets_innermost`), the call boundary (`call_boundary`: return value, null, located error for an escaping "
                  "break/continue, no escape ever reaches the caller's statements), `return_ends_call`; run-level correspondence and a model-free plan interpreter predicting the "
                  "trace of every nesting (depth ≤3/≤4) of block/if/else-if/while/for/call with break/continue/return at the innermost "
                  "position, every truth assignment of if-chains with full and empty branches, loop bodies mutating the iterated "
                  "container, pairs kept past their iteration.",
             ref="§6 C07", technique="Lean 4 theorems on the evaluator model (jump contexts, loops as targets, call boundary) + exhaustive jump-nesting correspondence + plan-interpreter oracle"),
 "C11": dict(text="Lean theorems on the sequence primitives of the model (take/drop algebra of slicing and range assignment) and end to end "
                  "through the evaluator: `eval_index_list/str` (an index outside [0, len) is the documented error, never wrapped or "
                  "clamped), `eval_slice` (fresh cell, exact domain, defaults), `slice_concat_law`, `concat_index_law`, "
                  "`assign_then_index`, `range_assign_program`, `range_assign_open_end`; exhaustive "
                  "run-level correspondence over all lists/strings of length ≤4/≤5 × all indices/bounds in [-2,len+2] incl. omitted × read / "
                  "element assign / range assign; Python slicing with explicit domains is the model-free oracle. Extension C11x: `range_assign_from_own_slice` (a slice of the list assigned over another range of the same list: a snapshot of the old items is spliced, also when the ranges overlap).",
             ref="§6 C11", technique="Lean 4 theorems on the model's sequence primitives + exhaustive index-grid correspondence + Python oracle"),
 "C17": dict(text="Lean theorems: every error any evaluator function returns is located (G5, induction over all 23 functions), a located "
                  "error renders as `<l>:<c>:[ in 'f':] msg`, the stack trace has one line per active call ending at <root>, failures keep the "
                  "output printed so far (G3), success is silent; `decide` theorems over the tables regenerated from the source on every run (every context wrapper of the error enum "
                  "is looked through by the CLI renderer or is a position/frame carrier); every position of every runtime diagnostic of every "
                  "program, interpolation slots included, lies on a line of the source (`diag_line_in_source`: 1 ≤ line ≤ 1 + line breaks; slot "
                  "texts are contiguous pieces of the source); run-level correspondence of the full stderr text on "
                  "error kind × syntactic position × call depth × context; model-free oracle = stderr grammar, planted call chain vs stack "
                  "trace (call chains written in 12 call styles), planted prints vs stdout, no internal identifiers. Known findings K1, K6 are "
                  "reported as KNOWN-FINDING.",
             ref="§6 C17", technique="Lean 4 theorems (err_located, render shape) + decide-theorems over extracted tables + stderr correspondence + grammar oracle"),

 "C01": dict(text="The Lean evaluator is the independent executable reading of docs/features.md. Theorems: the meaning of a terminating "
                  "program does not depend on the fuel (G1, all 23 evaluator functions), statement sequences compose (seq_compose; seq_compose_upto: both directions, up to fuel), an "
                  "escaping statement cuts the sequence, statement lists that are equivalent up to fuel are interchangeable in every "
                  "statement context (`stmt_ctx_congr_upto`; the fuel-exact form holds exactly under a side condition, with a "
                  "counterexample otherwise) and, at the level of outcomes (stdout, status, stderr), in EVERY context, function bodies and "
                  "function literals included (`fn_ctx_congr_upto`: a simulation over all 23 evaluator functions through states that are "
                  "equal up to the code stored in function cells). Tie: the model and the implementation must both reproduce the maintainers' "
                  "expectations of all 336 suite scripts, every `print(…) # x` expectation of the documentation is checked on the "
                  "implementation (model-free), and on generated programs a CLI-confirmed difference between implementation and model "
                  "in stdout / status / diagnostic is a violation with the shrunk program as replay.",
             ref="§6 C01", technique="Lean 4 executable semantics + fuel-independence/sequencing theorems + whole-run differential correspondence"),
 "C19": dict(text="Lean decide-theorems over tables regenerated from the source (the only hash-ordered iteration is collected into a "
                  "BTreeMap; the only environment/file-system uses are args, current_dir, read_to_string, exit); `render_eq_spec`: the model's printer equals "
                  "the depth-passing pretty-printer specification for every value and nesting, equal values print the same, keys ascending; "
                  "tie + Python depth-passing pretty-printer on nested values built along three construction histories; "
                  "determinism of the binary (which no model can exhibit) is tested by repeated CLI runs under varied cwd, locale, "
                  "environment, path spelling, stdin and stdout kinds — partial by nature for that part.",
             ref="§6 C19", technique="Lean 4 theorems on render model + decide-theorems over extracted tables + repeated-run determinism oracle"),
}


CLAIMS.update({
 "C02": dict(text="Lean theorem G4 (`no_crash`): from the initial state no evaluator function can reach any of the model's crash sites — "
                  "dangling address, empty scope chain, out-of-range index, arithmetic trap — except `print` of a value that contains itself "
                  "(the statement's own exclusion); proved by induction over all 23 mutually recursive evaluator functions from a heap "
                  "well-formedness invariant (WF, list cells keep their length). The crash sites of the model were written against the "
                  "explicit panic sites and lock acquisitions of src/, which the translator lists per function on every run "
                  "(`panic_sites_as_audited`, `decide`); the model is tied by run-level correspondence on the exhaustive alias-shape × operator product, the "
                  "extreme-integer grid, multi-byte string/interpolation literals and generated programs; model-free oracle: exit status ∈ "
                  "{0,103}, no panic.",
             ref="§6 C02", technique="Lean 4 invariant proof (well-formedness ⇒ no crash) over the evaluator model + differential correspondence + crash oracle"),
 "C03": dict(text="Lean theorems: the lexer always makes progress and its fuel is always enough; the parser's fuel is always enough "
                  "(`parse_total`, potential-function argument over all 22 parser functions): the front end decides every input; the token "
                  "a syntax error names is a token of the input (`errAll`), so every reported line lies in 1..1+#newlines "
                  "(`syntax_error_line_bound`); a rejected input prints nothing, fails, and its diagnostic is exactly "
                  "`<path>:<l>:<c>: <msg>` at every fuel (`syntax_error_no_output`, `diag_format`); only evaluation can time out. Tie: token- and tree-level correspondence, exhaustive over all strings of length "
                  "≤3/≤4 over a 34-character alphabet (incl. non-ASCII numerics and spaces) plus truncations/mutations/Unicode; CLI oracle: one `<path>:<l>:<c>: msg` "
                  "diagnostic, status 103, empty stdout, line bound, read error for invalid UTF-8; an accepted file is lexed whole (the "
                  "implementation's own token spans cover everything but white space, comments and terminators).",
             ref="§6 C03", technique="Lean 4 totality/progress theorems on lexer and parser models + exhaustive short-input tok/ast correspondence + CLI format oracle"),
 "C04": dict(text="Lean theorems on scope lookup/assign/declare (innermost wins, nearest is updated, only the top scope is declared in, "
                  "shadowing frame), fresh scope per block/branch/iteration/call, closures store the defining chain itself, `evalCall` "
                  "factors through a `callValue` that does not take the caller's chain; `alpha_equivariance`: for an injective renaming π "
                  "that fixes `_`, `this`, `print`, fn-statement names, shorthand names and slot expressions, `evalProg n (π•prog) = π•evalProg n prog` "
                  "(induction over all 23 evaluator functions), hence same output and status. Tie + two model-free oracles: an independent Python "
                  "lexical-scoping interpreter and renaming metamorphism, exhaustive over scope-operation programs to 6/7 tokens.",
             ref="§6 C04", technique="Lean 4 frame theorems on scope primitives and call factoring + exhaustive scope-program correspondence + renaming metamorphism"),
 "C05": dict(text="Lean frame theorems: alias sites keep the address, updates change exactly one cell, builders allocate fresh cells that "
                  "share their elements, `x += ys` rebinds, scalars are not heap cells; G2 (heap only grows, cells keep their kind, function "
                  "cells never change) for the whole evaluator; end to end through `evalStmts`: `alias_mutation_visible` (after `b := a` an update "
                  "through `b` is read through `a`, `a === b`, nothing else changes), `copy_mutation_invisible` for the four builders, "
                  "`scalar_copy_independent`, `argument_alias` / `argument_rebind_local`, `opassign_rebinds_not_mutates`. Tie + Python reference with object identity, breadth-first over distinct heap "
                  "shapes of alias/copy/mutate/observe histories. Extension C05x: `self_store_is_alias` (a container stored into its own slot is stored as itself), `builders_fresh_even_when_empty` (every building form allocates a new cell also when the result is empty).",
             ref="§6 C05", technique="Lean 4 frame/freshness theorems + heap-shape-exhaustive history correspondence + Python identity oracle"),
 "C06": dict(text="Lean theorems: `arith` is exact on Int ∩ i64 or reports IntOverflow (iff), division/remainder law and signs, comparisons "
                  "agree with order, literal value and 2^63 boundary, `_` separators ignored, range spec, op-assign = assign for any "
                  "right-hand side that leaves the target unchanged (through the evaluator, using G1); `source_primitives_as_modelled` "
                  "(`decide` over the i64 method and any raw operator each arm of `apply_binary_operation` uses, read off the source on "
                  "every run). Tie + Python big-integer oracle on the "
                  "boundary grid × operators × plain/op-assign forms, random 64-bit pairs, literals and ranges.",
             ref="§6 C06", technique="Lean 4 exactness theorems on the arithmetic model + boundary-grid correspondence + big-integer oracle"),
 "C08": dict(text="Lean theorems: print/parse round trip for the WHOLE grammar — `parseStmts (print p) = p` up to positions for every "
                  "well-formed program (operators, `..`, postfix forms, list/object/function literals, every statement form; minimal "
                  "parentheses, the driver's fuel), `parse_sound` (the parser only produces well-formed trees), hence the well-formed trees "
                  "are exactly the parser's image (`image_iff`) and printing is injective on them; with C09's lexer round trip, "
                  "`front_end_roundtrip`: the printed SOURCE TEXT of every well-formed program parses back to it; left-associativity, tighter-tier-first, `..` loosest, "
                  "negative literal vs subtraction, parentheses override; every parenthesis the printer puts is NECESSARY (`printed_paren_necessary`: "
                  "delete any one printed pair and no parse of the rest gives the tree back; `parseExpr_paren_count`, whole grammar); `decide` theorems that the tier table extracted from the grammar "
                  "is the documented one. Tie at tree level; oracle: the generator's own tree must equal the implementation's dump for "
                  "minimal / full / redundant parenthesisations, exhaustive over operator sequences, CLI-confirmed with distinguishing values.",
             ref="§6 C08", technique="Lean 4 parser/printer round-trip and grouping theorems + decide-theorems over the extracted tier table + tree-level correspondence"),
 "C09": dict(text="Lean theorems: the continuation-token set extracted from the lexer is the documented one (`decide`), `suppress` is "
                  "characterised pointwise and is invariant under inserting terminators after a terminator/continuation token or at the start, "
                  "a break after an ineligible token does split, `;` and newline are the same token; lexer level: tokens do not depend "
                  "on the position the scan starts from, `skipWs_spec`, inserting blanks/comments at any token boundary leaves the token kinds "
                  "unchanged (`layout_invariance_at_boundary`), a newline at a boundary is a `;` (`newline_is_semicolon_at_boundary`), `_` in "
                  "integer literals; `lex_render`: the lexer round trip — lexing the canonical spelling of any well-formed token list gives the "
                  "list back (exactly which terminators survive suppression is stated); at the end of a text the boundary theorems hold exactly "
                  "when the text does not end inside an open literal (`layout_at_end_iff`), appended text inside an open literal is literal text. Tie at token level (positions erased) and run level; oracle: layout "
                  "metamorphism on the implementation (same tokens, same output, diagnostics at the mapped position).",
             ref="§6 C09", technique="Lean 4 theorems on terminator suppression + decide-theorems over extracted tables + layout-metamorphism correspondence"),
 "C10": dict(text="Lean theorems: `==` on acyclic values equals equality of their tree unfoldings (so aliasing, construction and insertion "
                  "order play no role), reflexive also on deep copies, never two different booleans for the two orders, transitive, `!=` is the "
                  "negation, mismatches are errors naming both kinds, never `bad`; `===` is address equality on list/object/function, reflexive, "
                  "symmetric, implies `==`; comparison returns the state unchanged. Tie + the laws judged on the implementation's own answers over "
                  "all ordered pairs and sampled triples of a pool of shapes in fresh/alias/shared/insertion-order variants.",
             ref="§6 C10", technique="Lean 4 theorems relating heap equality to tree equality + all-pairs correspondence + law oracle"),
 "C12": dict(text="Lean theorems: key order is a strict total order, sorted association lists with insert/lookup are finite maps "
                  "(lookup-insert, size, extensionality), hence insertion-order independence; literal evaluation = fold of inserts in source "
                  "order with later-wins, shorthand and spread; `.k` and `[\"k\"]` read/assign/op-assign coincide; `for` visits ascending keys; "
                  "global invariant: every object cell of every reachable state — also after an error — is sorted "
                  "(`objects_always_sorted`, `reachable_sorted`, all 23 evaluator functions), so the key-order theorems hold without "
                  "hypothesis for reached states. "
                  "Tie + Python dict oracle over key histories in all insertion orders. Extension C12x: `opassign_key_evaluated_once` (in `o[ke] op= rhs` the key expression is evaluated exactly once).",
             ref="§6 C12", technique="Lean 4 finite-map theorems on the object model + permutation-exhaustive history correspondence + dict oracle"),
 "C13": dict(text="Lean theorems: list/object destructuring binds positions/names, collect is `drop n` in a fresh cell and lossless, spread is "
                  "concatenation, `f(xs..)` = `f(xs[0],…)`, arity rule incl. rest parameter, same binding engine for `:=`, `=`, `for` and "
                  "parameters, shape errors; `bind_nested`: for arbitrarily nested declaration patterns (variables, `_`, lists with rest, objects "
                  "with shorthand / literal keys / rest) the engine equals a pure matcher `pmatch`, succeeds iff the declarative "
                  "projection exists with fresh distinct names, binds every leaf to its projection, allocates exactly the rest cells and "
                  "changes nothing else; exact error at every depth; `assign_nested`: the same for ASSIGNMENT through patterns of any depth "
                  "(ok iff shape, distinct leaf names, every leaf declared in the chain; each leaf stored in its nearest binding; frame and "
                  "read-back) (computed keys and index/property targets stay at depth 1). Tie + Python destructuring "
                  "reference and in-language round-trip laws over patterns × sources × positions (keys `_` included: defect D10, repaired). Extension C13x: `swap_by_destructuring` / `rotate_by_destructuring` (the right-hand side is evaluated completely before anything is bound).",
             ref="§6 C13", technique="Lean 4 bind/spread theorems + pattern×source exhaustive correspondence + Python reference oracle"),
 "C14": dict(text="Lean theorems: arguments evaluated once left to right before the callee, arity rule, parameters live in a fresh scope cell "
                  "on the closure chain (assigning one changes only that cell; mutating a passed container is shared), provenance: property/index "
                  "reads set the source object, variable/argument/list/return moves keep it, operators and literals drop it, `this` is bound iff "
                  "the callee value has a source; end to end through the evaluator: `method_call_this` (`o.f()` / `o[\"f\"]()` bind `this` to "
                  "the object read from for this call, whatever source the stored value carries), `stored_method_keeps_this` (variable, "
                  "argument, list), `plain_function_has_no_this`, `assign_replaces_provenance`. Tie + generator-planted expected `this` "
                  "over access-path histories.",
             ref="§6 C14", technique="Lean 4 provenance and parameter-frame theorems + access-path history correspondence + planted-tag oracle"),
 "C15": dict(text="Lean theorems: `str_roundtrip` (lexing the escaped rendering of any byte/character sequence gives it back), `slots_exact` "
                  "(pieces and balanced slots are recovered in order), `interpolate_concat` (the value is the concatenation of pieces and slot "
                  "values, slots evaluated left to right), `utf8_roundtrip`, length in bytes, one-step facts for every malformed form located at the "
                  "character. Tie: token and run correspondence, "
                  "exhaustive over strings ≤2/≤3 (+ all of length 4) over an alphabet with escapes, 2/3/4-byte characters, braces and `$`, all "
                  "arrangements of 0..3 slots, malformed literals at every position; Python decode/concat oracle.",
             ref="§6 C15", technique="Lean 4 round-trip/interpolation theorems on the literal lexer and evaluator models + exhaustive short-literal correspondence + Python decode/concat oracle"),
 "C16": dict(text="Lean theorems: `applyBinOp` succeeds only on the documented operand kinds (`binop_domain`), rejects every other pair with "
                  "InvalidOpTypes naming operator and both kinds in order, results have the kind determined by the operator (no coercion), the two "
                  "type-name tables extracted from the source agree and are the documented names, `->type()` total except null, every typed "
                  "context rejects the other kinds; the operand-kind arms of `apply_binary_operation`, `eq` and `ref_eq` are read off the "
                  "source on every run and are exactly the documented domain (`source_arms_are_the_documented_domain`, "
                  "`model_domain_is_source_domain`; a guard or any unrecognised arm shape is an extraction error). Tie + oracle: the full finite matrix operator × kind × kind (plain and op-assign) × contexts, "
                  "run exhaustively in both tiers against an independently transcribed table. Extension C16x: `range_assign_rhs_kinds` (the right-hand side of a range assignment: every kind but list and string is the type error whatever its size, before the bounds are evaluated), `ref_eq_kinds`.",
             ref="§6 C16", technique="Lean 4 case-analysis theorems over operator×kind matrix + decide-theorems over extracted type-name tables + exhaustive matrix correspondence"),
 "C18": dict(text="Lean theorems: the scanner's position after k characters is `posOf src k` (lines from 1, columns count characters, a "
                  "newline is column 0 of the next line), every token start and every lexical-error position is `posOf` of the offending "
                  "character, positions depend only on the preceding text (`pos_shift`), tab and multi-byte count one; `node_pos`: every "
                  "position stored in a parsed tree is the start of a token of the input (all 22 parser functions), `node_pos_src`: hence "
                  "`posOf` of a character of the source; `eval_uses_node_pos`: every position of every runtime diagnostic (located nodes, call "
                  "frames, payloads) is a position stored in the program tree or derived from a run-time slot parse (heap invariant over "
                  "function and scope cells, all 23 evaluator functions), so without evaluated slots it is `posOf` of the first character "
                  "of a token (`diag_pos_is_source_pos_partial`, with counterexamples for the unrestricted form: K2/K4); which stored "
                  "position each diagnostic uses is checked by the tie. Tie at token/tree level with positions; oracle: "
                  "planted offending tokens (undefined names in 33 operand positions) under layout rewrites with a 5-line Python reference. "
                  "Known findings K2, K4, K5. Attribution theorems say WHICH stored position each diagnostic carries: the operator of a failing binary operation or op-assignment (each operator of a chain its own), the keyword of a stray jump, the index expression, the condition, the iterable (`binop_fail_at_opLoc`, `chain_*_fails`, `break_escaping_call_at_keyword`, `node_kw`/`kw_pos_src` on source text).",
             ref="§6 C18", technique="Lean 4 position theorems on scanner/lexer models + positioned tok/ast correspondence + planted-token oracle"),
 "C20": dict(text="Lean theorems: reading/assigning/op-assigning an undeclared name is `Undefined` at that name, declaring twice in one scope "
                  "is `AlreadyInScope` citing the earlier position and leaves the state unchanged, inner-scope redeclaration is allowed, all "
                  "entry points reach `declare` on the top scope, `_` is a no-op for every bind mode and is never readable given no scope holds "
                  "it, and `underscore_never`: no reachable state has a scope holding `_` (global invariant over all 23 evaluator functions); "
                  "non-bindable targets are rejected. "
                  "Tie + Python scope machine over event sequences and every non-bindable kind × binding position.",
             ref="§6 C20", technique="Lean 4 theorems on declare/assign/read and `_` + exhaustive event-sequence correspondence + Python scope-machine oracle"),
})

PENDING = {}

def main():
    hooks_commits = ["58af5e8", "d283225", "06f7b02"]
    checks = []
    for pid in sorted(CLAIMS):
        c = CLAIMS[pid]
        checks.append({
            "property_id": pid,
            "quick_cmd": f"./check {pid} --tier quick",
            "thorough_cmd": f"./check {pid} --tier thorough",
            "evidence_file": f"/verif/evidence/{pid}.json",
            "replay_cmd_template": f"./check {pid} --replay {{path}}",
            "engine": "lean-model",
            "level_claimed": {"category": "proof", "text": c["text"], "design_ref": c["ref"]},
            "level_note": c.get("note", BASE_NOTE),
            "technique": c["technique"],
        })
    m = {
        "version": 1,
        "setup_cmd": "./setup.sh",
        "hooks": {
            "guard": "seed_verif",
            "enable": "RUSTFLAGS=\"--cfg seed_verif\" cargo build --offline --target-dir /verif/.build/target (run by every check)",
            "baseline_off_cmd": "cd /repo && cargo nextest run --workspace --no-fail-fast --test-threads 8 --offline || cargo test --workspace --no-fail-fast --offline",
            "source_commits": hooks_commits,
            "add_only": True,
        },
        "engines": [{"name": "lean-model", "path": "/verif/lean", "serves_properties": sorted(CLAIMS),
                     "kind_free_text": "Lean 4 model (SeedModel) + theorems (SeedProofs) + native model driver, tied to /repo by tools/extract.py and by harness/ correspondence runs"}],
        "checks": checks,
        "notes": "See DESIGN.md. Genuine defects found and repaired are listed in known_findings.json (fixed:), recorded ones as known.",
        "not_applicable": [{"property_id": p, "reason": r} for p, r in sorted(PENDING.items()) if p not in CLAIMS],
    }
    (VERIF / "MANIFEST.json").write_text(json.dumps(m, indent=1, ensure_ascii=False) + "\n")


if __name__ == "__main__":
    main()
