#!/usr/bin/env python3
"""mkmanifest.py — (re)writes /verif/MANIFEST.json from the table below; run after claiming a property."""
import json
from pathlib import Path

VERIF = Path(__file__).resolve().parent.parent
BASE_NOTE = ("Trusted: Lean 4.33.0 kernel; axioms ⊆ {propext, Classical.choice, Quot.sound} (audited per run with #print axioms; no "
             "sorry/admit/axiom/native_decide); tools/extract.py (table translator: symbol/keyword/continuation/tier tables, error "
             "templates, wrapper and peel lists, type-name tables); the hand-written Lean model of scanner, lexer, parser, evaluator "
             "and diagnostic renderer is tied to /repo by differential runs on the streams named in the evidence (test-level "
             "strength, never standing in for a theorem); LALRPOP's automaton, Rust std and the OS are not modelled.")

CLAIMS = {
 "C02": dict(text="Theorems about the model (arithmetic cannot crash at any operand incl. zero divisors and i64 extremes; …) checked by the Lean "
                  "kernel; the model is tied to the code by run-level correspondence on the exhaustive alias-shape × operator product, the "
                  "extreme-integer grid, multi-byte string/interpolation literals and generated programs; a model-free oracle "
                  "(exit status ∈ {0,103}, no panic) turns a broken tie into a concrete crashing input.",
             ref="§6 C02", technique="Lean 4 theorems on the model + differential model/implementation correspondence + crash oracle"),
 "C03": dict(text="Lean theorems: the lexer always makes progress, its fuel is always enough (termination for every input), every reported "
                  "token/error line lies in 1..1+#newlines; the model is tied by token- and tree-level correspondence, exhaustive over all "
                  "strings of length ≤3 (quick) / ≤4 (thorough) over a 30-character alphabet plus truncations/mutations/Unicode; CLI oracle "
                  "checks one `<path>:<l>:<c>: msg` diagnostic, status 103, empty stdout, line bound, read errors for invalid UTF-8.",
             ref="§6 C03", technique="Lean 4 theorems on the lexer model + exhaustive short-input tok/ast correspondence + CLI format oracle"),
 "C07": dict(text="Lean theorems on the evaluator model for jumps; run-level correspondence and a model-free plan interpreter predicting the "
                  "trace of every nesting (depth ≤3/≤4) of block/if/else-if/while/for/call with break/continue/return at the innermost "
                  "position, every truth assignment of if-chains, and loop bodies mutating the iterated container.",
             ref="§6 C07", technique="Lean 4 theorems on the evaluator model + exhaustive jump-nesting correspondence + plan-interpreter oracle"),
 "C11": dict(text="Lean theorems on the sequence primitives of the model (take/drop algebra of slicing and range assignment); exhaustive "
                  "run-level correspondence over all lists/strings of length ≤4/≤5 × all indices/bounds in [-2,len+2] incl. omitted × read / "
                  "element assign / range assign; Python slicing with explicit domains is the model-free oracle.",
             ref="§6 C11", technique="Lean 4 theorems on the model's sequence primitives + exhaustive index-grid correspondence + Python oracle"),
 "C17": dict(text="Lean theorems: every error any evaluator function returns is located (G5, induction over all 23 functions), a located "
                  "error renders as `<l>:<c>:[ in 'f':] msg`, the stack trace has one line per active call ending at <root>, failures keep the "
                  "output printed so far (G3), success is silent; `decide` theorems over the tables regenerated from the source on every run (every context wrapper of the error enum "
                  "is looked through by the CLI renderer or is a position/frame carrier); run-level correspondence of the full stderr text on "
                  "error kind × syntactic position × call depth × context; model-free oracle = stderr grammar, planted call chain vs stack "
                  "trace, planted prints vs stdout, no internal identifiers. Known finding K1 is reported as KNOWN-FINDING.",
             ref="§6 C17", technique="Lean 4 theorems (err_located, render shape) + decide-theorems over extracted tables + stderr correspondence + grammar oracle"),

 "C01": dict(text="The Lean evaluator is the independent executable reading of docs/features.md. Theorems: the meaning of a terminating "
                  "program does not depend on the fuel (G1, all 23 evaluator functions), statement sequences compose (seq_compose), an "
                  "escaping statement cuts the sequence. Tie: the model and the implementation must both reproduce the maintainers' "
                  "expectations of all 336 suite scripts, every `print(…) # x` expectation of the documentation is checked on the "
                  "implementation (model-free), and on generated programs a CLI-confirmed difference between implementation and model "
                  "in stdout / status / diagnostic is a violation with the shrunk program as replay.",
             ref="§6 C01", technique="Lean 4 executable semantics + fuel-independence/sequencing theorems + whole-run differential correspondence"),
 "C19": dict(text="Lean decide-theorems over tables regenerated from the source (the only hash-ordered iteration is collected into a "
                  "BTreeMap; the only environment/file-system uses are args, current_dir, read_to_string, exit), rendering theorems on the "
                  "model; tie + Python depth-passing pretty-printer on nested values built along three construction histories; "
                  "determinism of the binary (which no model can exhibit) is tested by repeated CLI runs under varied cwd, locale, "
                  "environment, path spelling, stdin and stdout kinds — partial by nature for that part.",
             ref="§6 C19", technique="Lean 4 theorems on render model + decide-theorems over extracted tables + repeated-run determinism oracle"),
}

PENDING = {
 "C01": "check under construction (whole-program correspondence on generated programs; global evaluator theorems)",
 "C04": "check under construction", "C05": "check under construction", "C06": "check under construction",
 "C08": "check under construction", "C09": "check under construction", "C10": "check under construction",
 "C12": "check under construction", "C13": "check under construction", "C14": "check under construction",
 "C15": "check under construction", "C16": "check under construction", "C18": "check under construction",
 "C19": "check under construction", "C20": "check under construction",
}


def main():
    hooks_commit = "58af5e8"
    checks = []
    for pid in sorted(CLAIMS):
        c = CLAIMS[pid]
        checks.append({
            "property_id": pid,
            "quick_cmd": f"./check {pid} --tier quick",
            "thorough_cmd": f"./check {pid} --tier thorough",
            "evidence_file": f"/verif/evidence/{pid}.json",
            "replay_cmd_template": f"./check {pid} --replay {{path}}",
            "engine": "lean-model",
            "level_claimed": {"category": "proof", "text": c["text"], "design_ref": c["ref"]},
            "level_note": c.get("note", BASE_NOTE),
            "technique": c["technique"],
        })
    m = {
        "version": 1,
        "setup_cmd": "./setup.sh",
        "hooks": {
            "guard": "seed_verif",
            "enable": "RUSTFLAGS=\"--cfg seed_verif\" cargo build --offline --target-dir /verif/.build/target (run by every check)",
            "baseline_off_cmd": "cd /repo && cargo nextest run --workspace --no-fail-fast --test-threads 8 --offline || cargo test --workspace --no-fail-fast --offline",
            "source_commits": [hooks_commit],
            "add_only": True,
        },
        "engines": [{"name": "lean-model", "path": "/verif/lean", "serves_properties": sorted(CLAIMS),
                     "kind_free_text": "Lean 4 model (SeedModel) + theorems (SeedProofs) + native model driver, tied to /repo by tools/extract.py and by harness/ correspondence runs"}],
        "checks": checks,
        "notes": "See DESIGN.md. Genuine defects found and repaired are listed in known_findings.json (fixed:), recorded ones as known.",
        "not_applicable": [{"property_id": p, "reason": r} for p, r in sorted(PENDING.items()) if p not in CLAIMS],
    }
    (VERIF / "MANIFEST.json").write_text(json.dumps(m, indent=1, ensure_ascii=False) + "\n")


if __name__ == "__main__":
    main()
