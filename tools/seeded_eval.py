#!/usr/bin/env python3
"""seeded_eval.py — confirm a seeded change (patch + demo) in a scratch worktree and run checks against it.

  seeded_eval.py <mutant-dir> [--checks C07,C01] [--keep-as <name>]

Works on an isolated copy of /verif (/tmp/verif-eval, refreshed from the working tree) and a scratch worktree of /repo
(/tmp/eval-repo), so nothing in /repo or in the live /verif build is touched.  With --keep-as it stores the confirmed change as
/verif/seeded/<name>/ (patch.diff, demo.sd, demo.txt, meta.json).
"""
import argparse
import json
import os
import shutil
import subprocess
import sys
import time
from pathlib import Path

EVAL_VERIF = Path(os.environ.get("SEEDED_EVAL_VERIF", "/tmp/verif-eval"))      # a second lane sets both
EVAL_REPO = Path(os.environ.get("SEEDED_EVAL_REPO", "/tmp/eval-repo"))
ENV = dict(os.environ, CARGO_NET_OFFLINE="true")


def sh(cmd, cwd=None, timeout=1800, env=None):
    p = subprocess.run(cmd, shell=True, cwd=cwd, stdout=subprocess.PIPE, stderr=subprocess.STDOUT, timeout=timeout, env=env or ENV)
    return p.returncode, p.stdout.decode(errors="replace")


def refresh():
    EVAL_VERIF.mkdir(exist_ok=True)
    if os.environ.get("SEEDED_FROM_HEAD"):
        # proof work may be going on in the working tree: take the tracked files from the last commit instead, on top of
        # the build products of the previous copy (lake rebuilds what differs)
        sh(f"git -C /verif archive HEAD | tar -x -C {EVAL_VERIF}")
    else:
        sh(f"rsync -a --delete --exclude .git --exclude replays --exclude '.build/clib*' --exclude '.build/seedcli*' /verif/ {EVAL_VERIF}/")
    if not EVAL_REPO.exists():
        sh(f"git -C /repo worktree add -f {EVAL_REPO} HEAD")
    sh("git checkout -q --detach $(git -C /repo rev-parse HEAD) && git checkout -- . && git clean -fdq -e target", cwd=EVAL_REPO)


def run_demo(binary, demo):
    rs = demo.parent / "run.sh"
    if rs.exists():         # a demonstration that needs a directory layout around the script: `run.sh <binary>` prints what it sees
        try:
            p = subprocess.run(["sh", str(rs), str(binary)], stdout=subprocess.PIPE, stderr=subprocess.PIPE, timeout=60, cwd=str(demo.parent))
        except subprocess.TimeoutExpired:
            return {"stdout": "", "stderr": "", "status": "timeout"}
        return {"stdout": p.stdout.decode(errors="replace"), "stderr": p.stderr.decode(errors="replace"), "status": p.returncode, "via": "run.sh"}
    try:
        p = subprocess.run([str(binary), str(demo)], stdout=subprocess.PIPE, stderr=subprocess.PIPE, timeout=10, cwd=str(demo.parent))
    except subprocess.TimeoutExpired:
        return {"stdout": "", "stderr": "", "status": "timeout"}
    return {"stdout": p.stdout.decode(errors="replace"), "stderr": p.stderr.decode(errors="replace"), "status": p.returncode}


def main():
    ap = argparse.ArgumentParser()
    ap.add_argument("mutdir")
    ap.add_argument("--checks", default="")
    ap.add_argument("--keep-as")
    ap.add_argument("--tier", default="quick")
    ap.add_argument("--skip-tests", action="store_true")
    a = ap.parse_args()
    mut = Path(a.mutdir)
    patch = mut / "patch.diff"
    import fcntl
    lock = open(f"/tmp/seeded_eval{EVAL_REPO.name}.lock", "w")
    fcntl.flock(lock, fcntl.LOCK_EX)        # one evaluation at a time: the scratch copies are shared
    refresh()
    meta = {"mutant": mut.name, "confirmed": False}
    try:
        meta.update(json.loads(Path("/verif/tools/seeded_summaries.json").read_text()).get(a.keep_as or mut.name, {}))
    except Exception:
        pass
    try:        # the author's own description, when the change comes with one
        own = json.loads((mut / "meta.json").read_text())
        for k in ("property", "what", "needs"):
            if k in own and k not in meta:
                meta[k] = own[k]
    except Exception:
        pass
    meta["ran"] = ("scratch worktree /tmp/eval-repo at /repo HEAD: cargo build, git apply patch.diff, cargo build, cargo test --workspace "
                   "--offline (all must pass), demo.sd on both binaries (must differ), then ./check <id> on an rsync copy of /verif with "
                   "SEED_REPO=/tmp/eval-repo; worktree reverted afterwards")
    # baseline demo
    rc, out = sh("cargo build --offline 2>&1 | tail -3", cwd=EVAL_REPO)
    demo = mut / "demo.sd"
    base = run_demo(EVAL_REPO / "target/debug/seed", demo) if demo.exists() else None
    rc, out = sh(f"git apply {patch}", cwd=EVAL_REPO)
    if rc != 0:
        meta["error"] = "patch does not apply: " + out[-300:]
        print(json.dumps(meta, indent=1))
        return 2
    try:
        rc, out = sh("cargo build --offline 2>&1 | tail -5", cwd=EVAL_REPO)
        meta["builds"] = rc == 0 and "error" not in out
        if a.skip_tests and a.keep_as:
            # a re-evaluation of a change whose test run was recorded when it was first confirmed: keep that record
            try:
                prev = json.loads((Path("/verif/seeded") / a.keep_as / "meta.json").read_text())
                for k in ("tests", "tests_pass"):
                    if k in prev:
                        meta[k] = prev[k]
            except Exception:
                pass
        if not a.skip_tests:
            rc, out = sh("cargo test --workspace --no-fail-fast --offline 2>&1 | grep 'test result'", cwd=EVAL_REPO)
            meta["tests"] = out.strip().split("\n")
            meta["tests_pass"] = all("0 failed" in l for l in meta["tests"]) and len(meta["tests"]) >= 2
        runs = [run_demo(EVAL_REPO / "target/debug/seed", demo) for _ in range(12)] if demo.exists() else []
        changed = next((r for r in runs if r != base), runs[0] if runs else None)
        meta["demo_unchanged"] = base
        meta["demo_changed"] = changed
        meta["demo_changed_distinct_outcomes_in_12_runs"] = len({json.dumps(r, sort_keys=True) for r in runs})
        meta["demo_differs"] = any(r != base for r in runs)
        meta["confirmed"] = bool(meta["builds"] and meta.get("tests_pass", True) and meta["demo_differs"])
        results = {}
        for pid in [c for c in a.checks.split(",") if c]:
            t0 = time.time()
            env = dict(ENV, SEED_REPO=str(EVAL_REPO), VERIF_TIER=a.tier)
            rc, out = sh(f"./check {pid} --tier {a.tier}", cwd=EVAL_VERIF, env=env, timeout=3600)
            lines = [l for l in out.split("\n") if l.startswith("VIOLATION") or l.startswith("KNOWN-FINDING")]
            detail = []
            for l in lines:
                if l.startswith("VIOLATION"):
                    rp = l.split("replay=")[1].split()[0]
                    try:
                        rj = json.loads((Path(rp) / "replay.json").read_text())
                        inp = (Path(rp) / "input.sd").read_text() if (Path(rp) / "input.sd").exists() else None
                        detail.append({"line": l.replace(str(EVAL_VERIF), "/verif"), "what": rj.get("what") or rj.get("no_longer_checks"),
                                       "why": str(rj.get("why", ""))[:300], "input": (inp or "")[:600]})
                    except Exception as e:
                        detail.append({"line": l, "error": str(e)})
            results[pid] = {"exit": rc, "wall_s": round(time.time() - t0, 1), "violations": detail,
                            "caught": rc == 1 and any(l.startswith("VIOLATION") for l in lines),
                            "with_failing_input": any("no-failing-input-found" not in l for l in lines if l.startswith("VIOLATION"))}
        meta["checks"] = results
    finally:
        sh("git checkout -- . && git clean -fdq -e target", cwd=EVAL_REPO)
    for r in meta.get("checks", {}).values():
        r["violations"] = r["violations"][:3]
    print(json.dumps(meta, indent=1))
    if a.keep_as and meta["confirmed"]:
        d = Path("/verif/seeded") / a.keep_as
        d.mkdir(parents=True, exist_ok=True)
        if patch.resolve() != (d / "patch.diff").resolve():
            shutil.copy(patch, d / "patch.diff")
        for f in ("demo.sd", "demo.txt", "run.sh", "demo2.sd", "demo-variant.sd"):
            if (mut / f).exists() and (mut / f).resolve() != (d / f).resolve():
                shutil.copy(mut / f, d / f)
        (d / "meta.json").write_text(json.dumps(meta, indent=1))
    return 0


if __name__ == "__main__":
    sys.exit(main())
