#!/usr/bin/env python3
"""mutate.py — mechanical mutation analysis of the tie (a measurement, not a registered check).

  mutate.py list                      number of candidate mutants per file / operator
  mutate.py run --lane K --of N --count M [--seed S]
        lane K of N evaluates every N-th mutant of a seeded shuffle (M mutants in total for the lane), each in its own
        scratch worktree /tmp/mutlane-K of /repo and its own copy /tmp/verif-lane-K of the committed /verif:
          build  ->  repository tests (a mutant they kill is of no interest)  ->  ./check <id> --tier quick for the 20
          properties, cheapest first, until one reports a violation
        results: /tmp/mutation/lane-K.jsonl (one JSON object per mutant)
  mutate.py report                    summary of all lanes

Mutation operators are textual and local (one token on one line): relational and arithmetic operator swaps, boolean
connective swaps, literal flips, negation removal, break/continue swap, `.rev()` removal, off-by-one on `len()`.
"""
import json
import os
import random
import re
import subprocess
import sys
import time
from pathlib import Path

REPO = Path("/repo")
FILES = ["src/lexer/mod.rs", "src/lexer/scanner.rs", "src/eval/mod.rs", "src/eval/bind.rs", "src/eval/scope.rs",
         "src/eval/value.rs", "src/builtins/fns.rs", "src/builtins/type_functions.rs", "src/main.rs"]
OPS = [
    ("eq->ne", r" == ", " != "), ("ne->eq", r" != ", " == "), ("lt->le", r" < ", " <= "), ("le->lt", r" <= ", " < "),
    ("gt->ge", r" > ", " >= "), ("ge->gt", r" >= ", " > "), ("lt->gt", r" < ", " > "), ("gt->lt", r" > ", " < "),
    ("plus->minus", r" \+ ", " - "), ("minus->plus", r" - ", " + "), ("and->or", r" && ", " || "), ("or->and", r" \|\| ", " && "),
    ("true->false", r"\btrue\b", "false"), ("false->true", r"\bfalse\b", "true"), ("not-removed", r"\bif !", "if "),
    ("break->continue", r"\bbreak;", "continue;"), ("continue->break", r"\bcontinue;", "break;"),
    ("rev-removed", r"\.rev\(\)", ""), ("len-1", r"\.len\(\)(?! *[-+])", ".len().saturating_sub(1)"),
    ("plus1-removed", r" \+ 1\b", " + 0"), ("minus1-removed", r" - 1\b", " - 0"), ("0->1", r"(?<![\w.])0(?![\w.])", "1"),
    ("1->2", r"(?<![\w.])1(?![\w.])", "2"), ("some->none", r"\bSome\((\w+)\)(?=[,;)\s]*$)", "None"),
    ("pluseq->minuseq", r" \+= ", " -= "),
]
ORDER = ["C07", "C11", "C16", "C17", "C06", "C15", "C19", "C12", "C08", "C13", "C01", "C20", "C14", "C18", "C09", "C02",
         "C05", "C10", "C04", "C03"]


def candidates():
    out = []
    for f in FILES:
        text = (REPO / f).read_text()
        cut = text.find("#[cfg(test)]")
        lines = text.split("\n")
        off = 0
        for ln, line in enumerate(lines):
            start = off
            off += len(line) + 1
            if cut >= 0 and start >= cut:
                break
            st = line.strip()
            if not st or st.startswith("//") or st.startswith("#[") or st.startswith("use ") or st.startswith("#!["):
                continue
            code = line.split("//")[0] if line.count('"') % 2 == 0 or "//" not in line else line
            if "display(" in code or "eprintln!" in code or "format!(" in code or "println!" in code:
                continue            # message texts are pinned by the repository's own tests
            for name, rx, rep in OPS:
                for k, m in enumerate(re.finditer(rx, code)):
                    # not inside a string literal
                    if code[:m.start()].count('"') % 2 == 1:
                        continue
                    out.append({"file": f, "line": ln, "op": name, "occ": k, "rx": rx, "rep": rep})
    return out


def apply(root, mut):
    p = root / mut["file"]
    lines = p.read_text().split("\n")
    line = lines[mut["line"]]
    ms = [m for m in re.finditer(mut["rx"], line) if line[:m.start()].count('"') % 2 == 0]
    if mut["occ"] >= len(ms):
        return None
    m = ms[mut["occ"]]
    new = line[:m.start()] + m.expand(mut["rep"]) + line[m.end():]
    lines[mut["line"]] = new
    p.write_text("\n".join(lines))
    return line.strip(), new.strip()


def sh(cmd, cwd, timeout=1800, env=None):
    e = dict(os.environ, CARGO_NET_OFFLINE="true")
    if env:
        e.update(env)
    try:
        p = subprocess.run(cmd, shell=True, cwd=cwd, stdout=subprocess.PIPE, stderr=subprocess.STDOUT, timeout=timeout, env=e)
        return p.returncode, p.stdout.decode(errors="replace")
    except subprocess.TimeoutExpired:
        return "timeout", ""


def run_lane(lane, of, count, seed):
    muts = candidates()
    random.Random(seed).shuffle(muts)
    mine = muts[lane::of][:count]
    wt = Path(f"/tmp/mutlane-{lane}")
    vf = Path(f"/tmp/verif-lane-{lane}")
    outdir = Path("/tmp/mutation")
    outdir.mkdir(exist_ok=True)
    if not wt.exists():
        sh(f"git -C /repo worktree add -f --detach {wt} HEAD", "/")
    sh("git checkout -q -- . && git clean -fdq -e target", wt)
    vf.mkdir(exist_ok=True)
    sh(f"rsync -a --delete --exclude .git --exclude replays --exclude '.build/clib*' --exclude '.build/seedcli*' "
       f"--exclude '.build/target*' /verif/ {vf}/", "/")
    sh(f"git -C /verif archive HEAD | tar -x -C {vf}", "/")
    sh("cargo build --offline", wt)
    log = open(outdir / f"lane-{lane}.jsonl", "a")
    for mut in mine:
        t0 = time.time()
        rec = {k: mut[k] for k in ("file", "line", "op", "occ")}
        try:
            ch = apply(wt, mut)
            if ch is None:
                continue
            rec["before"], rec["after"] = ch
            rc, out = sh("cargo build --offline 2>&1 | tail -3", wt)
            if rc != 0 or "error" in out:
                rec["outcome"] = "does-not-compile"
                continue
            rc, out = sh("timeout 600 cargo test --workspace --no-fail-fast --offline 2>&1 | grep 'test result'", wt)
            lines = [l for l in out.strip().split("\n") if l]
            if rc != 0 or len(lines) < 2 or not all("0 failed" in l for l in lines):
                rec["outcome"] = "killed-by-repository-tests"
                continue
            rec["outcome"] = "SURVIVED-ALL-CHECKS"
            rec["checks_run"] = []
            for pid in ORDER:
                rc, out = sh(f"./check {pid} --tier quick", vf, timeout=1500, env={"SEED_REPO": str(wt)})
                vio = [l for l in out.split("\n") if l.startswith("VIOLATION")]
                rec["checks_run"].append(pid)
                if vio:
                    rec["outcome"] = "caught"
                    rec["by"] = pid
                    rec["with_input"] = any("no-failing-input-found" not in l for l in vio)
                    break
        finally:
            sh("git checkout -q -- .", wt)
            rec["wall_s"] = round(time.time() - t0, 1)
            log.write(json.dumps(rec) + "\n")
            log.flush()


def report():
    rows = []
    for fp in sorted(Path("/tmp/mutation").glob("lane-*.jsonl")):
        rows += [json.loads(l) for l in fp.read_text().split("\n") if l.strip()]
    from collections import Counter
    c = Counter(r["outcome"] for r in rows)
    print(len(rows), dict(c))
    caught = [r for r in rows if r["outcome"] == "caught"]
    print("caught by:", dict(Counter(r["by"] for r in caught)), "with input:", sum(1 for r in caught if r.get("with_input")))
    for r in rows:
        if r["outcome"] == "SURVIVED-ALL-CHECKS":
            print("SURVIVOR", r["file"], r["line"] + 1, r["op"], "|", r["before"], "=>", r["after"])
    return rows


if __name__ == "__main__":
    if sys.argv[1] == "list":
        ms = candidates()
        from collections import Counter
        print(len(ms), Counter(m["file"] for m in ms), Counter(m["op"] for m in ms))
    elif sys.argv[1] == "run":
        a = sys.argv
        g = lambda k, d: int(a[a.index(k) + 1]) if k in a else d
        run_lane(g("--lane", 0), g("--of", 1), g("--count", 10), g("--seed", 20260929))
    else:
        report()
