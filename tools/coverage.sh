#!/bin/bash
# coverage.sh — how much of /repo/src do the correspondence streams exercise?  (a measurement of the tie's reach; not a check)
# Builds /repo with source-based coverage (nightly toolchain, hooks on), runs the quick tier of every check against that binary,
# and writes /verif/.build/coverage/report.txt (per-file line/region coverage) and uncovered.txt (uncovered lines of src/).
set -e
cd /verif
COV=/verif/.build/coverage
rm -rf $COV; mkdir -p $COV/raw
LLVM=$(dirname $(find ~/.rustup/toolchains/nightly-x86_64-unknown-linux-gnu -name llvm-profdata | head -1))
(cd /repo && RUSTFLAGS="-C instrument-coverage --cfg seed_verif" CARGO_NET_OFFLINE=true cargo +nightly build --offline --target-dir /verif/.build/target-cov 2>&1 | tail -2)
export VERIF_SEED_BIN=/verif/.build/target-cov/debug/seed
export LLVM_PROFILE_FILE="$COV/raw/seed-%8m.profraw"
for p in ${@:-C01 C02 C03 C04 C05 C06 C07 C08 C09 C10 C11 C12 C13 C14 C15 C16 C17 C18 C19 C20}; do
  ./check $p --tier quick > $COV/check-$p.log 2>&1 || true
  echo "$p done: $(grep -c VIOLATION $COV/check-$p.log) violation lines"
done
$LLVM/llvm-profdata merge -sparse $COV/raw/*.profraw -o $COV/seed.profdata
$LLVM/llvm-cov report $VERIF_SEED_BIN -instr-profile=$COV/seed.profdata --ignore-filename-regex='(registry|rustc|target-cov|verif_hooks)' > $COV/report.txt
$LLVM/llvm-cov show $VERIF_SEED_BIN -instr-profile=$COV/seed.profdata --ignore-filename-regex='(registry|rustc|target-cov|verif_hooks)' --show-line-counts-or-regions > $COV/show.txt
python3 - <<'PY'
import re
out=[]
cur=None
for line in open('/verif/.build/coverage/show.txt'):
    m=re.match(r'^(/repo/src/\S+):$', line.strip())
    if m: cur=m.group(1); continue
    m=re.match(r'^\s*(\d+)\|\s*0\|(.*)$', line.rstrip('\n'))
    if m and cur and m.group(2).strip() and not m.group(2).strip().startswith('//'):
        out.append(f"{cur}:{m.group(1)}: {m.group(2).strip()[:110]}")
open('/verif/.build/coverage/uncovered.txt','w').write('\n'.join(out)+'\n')
print(len(out),'uncovered source lines')
PY
cat $COV/report.txt | tail -25
