#!/usr/bin/env python3
"""seeded_table.py — markdown table of the seeded changes kept under /verif/seeded and which checks catch them."""
import json
from pathlib import Path

rows = []
for d in sorted(Path("/verif/seeded").iterdir()):
    mp = d / "meta.json"
    if not mp.exists():
        continue
    m = json.loads(mp.read_text())
    what = (m.get("what") or "") + ((" — needs: " + m["needs"]) if m.get("needs") else "")
    demo = (d / "demo.txt")
    if not what and demo.exists():
        what = demo.read_text().split("\n")[0][:140]
    checks = []
    for pid, r in (m.get("checks") or {}).items():
        if r.get("caught"):
            checks.append(f"{pid} ({'failing input' if r.get('with_failing_input') else 'no-failing-input-found'}, {r.get('wall_s')} s)")
        else:
            checks.append(f"{pid}: MISSED")
    rows.append((d.name, what.replace("|", "/"), "; ".join(checks)))
print("| seeded change | what it does | caught by |")
print("|---|---|---|")
for r in rows:
    print(f"| {r[0]} | {r[1]} | {r[2]} |")
