"""extract_more.py — further tables (grammar tiers, error templates, renderer peel list, type names)."""
import re
from pathlib import Path
from extract import ExtractError, strip_comments, fn_body, lean_chars


def grammar_tables(repo: Path):
    g = strip_comments((repo / "src/parser.lalrpop").read_text())
    # terminal spelling -> Token constructor
    m = re.search(r"enum Token \{(.*?)\n    \}", g, re.S)
    if not m:
        raise ExtractError("grammar_terminals", "extern enum Token not found")
    terms = dict(re.findall(r'"([^"]+)"\s*=>\s*Token::(\w+)', m.group(1)))
    # everything else is read off the NORMALISED grammar (binding names, position markers, `pub`, the order of alternatives
    # and macros / `#[inline]` helpers do not matter): see lalrpop_norm.py
    import lalrpop_norm as N
    try:
        G = N.Grammar((repo / "src/parser.lalrpop").read_text())
    except (N.GrammarError, IndexError, KeyError) as e:
        raise ExtractError("tiers", f"grammar not readable: {e}")

    def nt(name, *args):
        return ("nt", name, tuple(args))

    # action code may build a node directly (`RawExpr::Call{…}`) or through a constructor function of src/ast.rs
    # (`RawExpr::call(…)`): `built(action, "RawExpr")` gives the variant that is built, either way, and the constructor's body
    ast_path = repo / "src/ast.rs"
    ast_src = strip_comments(ast_path.read_text()) if ast_path.exists() else ""

    def built(action, ty):
        mm_ = re.search(ty + r"\s*:\s*:\s*(\w+)", action)
        if not mm_:
            return None, action
        name_ = mm_.group(1)
        if name_[0].isupper():
            return name_, action
        for im in re.finditer(r"\bimpl\s+" + ty + r"\s*\{", ast_src):
            blk = ast_src[im.end() - 1:balanced(ast_src, im.end() - 1, "{", "}")]
            try:
                body_ = fn_body(blk, name_, "grammar_actions")
            except ExtractError:
                continue
            m2 = re.search(ty + r"::([A-Z]\w*)", body_)
            if m2:
                return m2.group(1), body_
        return None, action

    # the tier macro: M<Op, Next> = Next | M<Op, Next> Op Next  (left-recursive, one operator between two operands)
    tier_macros = []
    for name, (params, inline, alts) in G.rules.items():
        if len(params) != 2:
            continue
        P, Q = nt(params[0]), nt(params[1])
        shapes = {a[0] for a in G.alts(name, (P, Q), keep=(name,))}
        if shapes == {(Q,), (nt(name, P, Q), P, Q)}:
            tier_macros.append(name)
        elif (Q, P, nt(name, P, Q)) in shapes or (Q, P, Q) in shapes:
            raise ExtractError("tiers", f"{name} is not `{name} op NextTier` (left-recursive)")
    if len(tier_macros) != 1:
        raise ExtractError("tiers", f"expected one left-recursive tier macro `M<Op, Next> = Next | M Op Next`, found {tier_macros}")
    M = tier_macros[0]
    inst = {}          # nonterminal -> (operator nonterminal, next tier)
    for name, (params, inline, alts) in G.rules.items():
        if params:
            continue
        al = G.alts(name, keep=(M,))
        if len(al) == 1 and len(al[0][0]) == 1 and al[0][0][0][0] == "nt" and al[0][0][0][1] == M:
            a = al[0][0][0][2]
            if len(a) != 2 or a[0][0] != "nt" or a[1][0] != "nt":
                raise ExtractError("tiers", f"unexpected instance of {M} in {name}")
            inst[name] = (a[0][1], a[1][1])
    if not inst:
        raise ExtractError("tiers", "no ExprTier chain found")
    # the loosest level: R = First | Expr ".." First, where Expr = R (with its position)
    first = [n for n in inst if n not in {nx for _, nx in inst.values()}]
    if len(first) != 1:
        raise ExtractError("tiers", f"tier chain does not have one start: {sorted(first)}")
    first = first[0]
    range_rules = []
    for name, (params, inline, alts) in G.rules.items():
        if params:
            continue
        shapes = [a[0] for a in G.alts(name, keep=(M,))]
        if any(len(sh) == 3 and sh[1] == ("lit", "..") for sh in shapes):
            range_rules.append((name, shapes))
    ok_range = False
    for name, shapes in range_rules:
        wrappers = [n for n, (pp, il, al) in G.rules.items() if not pp and [a[0] for a in G.alts(n, keep=(M,))] == [(nt(name),)]]
        for w in wrappers:
            if set(shapes) == {(nt(first),), (nt(w), ("lit", ".."), nt(first))}:
                ok_range = True
    if not ok_range:
        raise ExtractError("range", "range production is not `Expr .. <first tier>` next to `<first tier>` in the loosest level")
    # follow the chain; levels are positions: `..` is level 1, the first operator tier 2, …
    ops, levels, cur, lvl = [], [], first, 2
    while cur in inst:
        opnt, nxt = inst[cur]
        if opnt not in G.rules:
            raise ExtractError("tiers", f"{opnt} not found")
        for syms, action in G.alts(opnt):
            mm = re.search(r"BinaryOp\s*:\s*:\s*(\w+)", action)
            if len(syms) != 1 or syms[0][0] != "lit" or not mm:
                raise ExtractError("tiers", f"{opnt}: unrecognised alternative")
            sym = syms[0][1]
            if sym not in terms:
                raise ExtractError("tiers", f"terminal {sym!r} has no Token")
            ops.append((sym, terms[sym], mm.group(1), lvl))
        levels.append(lvl)
        cur, lvl = nxt, lvl + 1
    if len(levels) != len(inst):
        raise ExtractError("tiers", "tier chain is not one chain")
    # postfix forms of the tightest level: P = Atoms | P <opening token> …
    if cur not in G.rules:
        raise ExtractError("postfix", f"{cur} not found")
    postfix, atoms = [], 0
    for syms, action in G.alts(cur, keep=(M,)):
        if syms and syms[0] == nt(cur):
            if len(syms) < 2 or syms[1][0] != "lit":
                raise ExtractError("postfix", f"{cur}: a postfix form does not start with a token")
            kind_, where_ = built(action, "RawExpr")
            if not kind_:
                raise ExtractError("postfix", f"{cur}: a postfix form does not build a RawExpr")
            tp = re.search(r"type_prop\s*:\s*true", where_) is not None
            postfix.append((syms[1][1], kind_ + ("T" if tp else "")))
        elif len(syms) == 1 and syms[0][0] == "nt":
            atoms += 1
        else:
            raise ExtractError("postfix", f"{cur}: unrecognised alternative")
    if atoms != 1:
        raise ExtractError("postfix", f"{cur}: expected one alternative for the atoms")
    # op-assignment statements: Expr <token> Expr => Stmt::OpAssign, the token written out or through a table nonterminal
    assign_ops = []
    for name, (params, inline, alts) in G.rules.items():
        if params:
            continue
        for syms, action in G.alts(name, keep=(M,)):
            if "OpAssign" not in action and built(action, "Stmt")[0] != "OpAssign":
                continue
            if len(syms) != 3 or syms[0][0] != "nt" or syms[2] != syms[0]:
                raise ExtractError("assign_ops", f"{name}: op-assignment is not `Expr op Expr`")
            mid = syms[1]
            if mid[0] == "lit":
                mm = re.search(r"BinaryOp\s*:\s*:\s*(\w+)", action)
                if not mm:
                    raise ExtractError("assign_ops", f"{name}: op-assignment without an operator")
                assign_ops.append((mid[1], mm.group(1)))
            elif mid[0] == "nt" and mid[1] in G.rules:
                for s2, a2 in G.alts(mid[1]):
                    mm = re.search(r"BinaryOp\s*:\s*:\s*(\w+)", a2)
                    if len(s2) != 1 or s2[0][0] != "lit" or not mm:
                        raise ExtractError("assign_ops", f"{mid[1]}: unrecognised alternative")
                    assign_ops.append((s2[0][1], mm.group(1)))
            else:
                raise ExtractError("assign_ops", f"{name}: unrecognised op-assignment")
    # a canonical order, so that reordering alternatives is not a change: by tier, then by token spelling
    ops.sort(key=lambda r: (r[3], r[0]))
    postfix.sort()
    assign_ops.sort()
    return dict(terminals=terms, binops=ops, tier_levels=levels, postfix=postfix,
                assign_ops=[(s_, terms[s_], op) for s_, op in assign_ops])


def emit_grammar(gr):
    L = ["/-- binary operators: (token, operator, tier); tiers as ExprPrecedenceN, larger = tighter -/",
         "def binOps : List (Token × BinaryOp × Nat) := ["]
    L.append(",\n".join(f"  (Token.{tok}, BinaryOp.{op}, {lvl})" for _, tok, op, lvl in gr["binops"]))
    L.append("]\n")
    L.append(f"def firstTier : Nat := {gr['tier_levels'][0]}")
    L.append(f"def postfixTier : Nat := {gr['tier_levels'][-1] + 1}\n")
    L.append("/-- op-assignment tokens -/")
    L.append("def assignOps : List (Token × BinaryOp) := [")
    L.append(",\n".join(f"  (Token.{tok}, BinaryOp.{op})" for _, tok, op in gr["assign_ops"]))
    L.append("]\n")
    L.append("/-- opening token of each postfix form of the tightest tier -/")
    L.append("def postfixForms : List (Token × List Char) := [")
    L.append(",\n".join(f"  (Token.{gr['terminals'][t]}, {lean_chars(k)})" for t, k in gr["postfix"]))
    L.append("]\n")
    return "\n".join(L)


# --------------------------------------------------------------------------- errors
def split_top(s, sep=","):
    """split at top-level separators (outside (), [], {}, <> and string literals)"""
    parts, depth, cur, i = [], 0, "", 0
    while i < len(s):
        ch = s[i]
        if ch == '"':
            j = i + 1
            while s[j] != '"' or s[j - 1] == "\\":
                j += 1
            cur += s[i:j + 1]
            i = j + 1
            continue
        if ch in "([{<":
            depth += 1
        elif ch in ")]}>":
            depth -= 1
        if ch == sep and depth == 0:
            parts.append(cur)
            cur = ""
        else:
            cur += ch
        i += 1
    if cur.strip():
        parts.append(cur)
    return parts


def balanced(s, i, open_ch="(", close_ch=")"):
    """s[i] is open_ch; return index just past the matching close_ch (string-literal aware)"""
    depth, j = 0, i
    while j < len(s):
        ch = s[j]
        if ch == '"':
            k = j + 1
            while s[k] != '"' or s[k - 1] == "\\":
                k += 1
            j = k
        elif ch == open_ch:
            depth += 1
        elif ch == close_ch:
            depth -= 1
            if depth == 0:
                return j + 1
        j += 1
    raise ExtractError("errors", "unbalanced")


FIELD_TYPES = {
    "String": "List Char", "usize": "Nat", "i64": "Int", "Value": "Kind", "BinaryOp": "BinaryOp",
    "FromUtf8Error": "List Char", "TryFromIntError": "Unit", "Option<String>": "Option (List Char)",
    "(usize, usize)": "Loc",
}


def rust_str_literal(tok):
    tok = tok.strip()
    if not (tok.startswith('"') and tok.endswith('"')):
        raise ExtractError("errors", f"display format is not a plain string literal: {tok[:40]!r}")
    body = tok[1:-1]
    out, i = "", 0
    while i < len(body):
        if body[i] == "\\":
            nxt = body[i + 1]
            if nxt == "\n":  # line continuation: skip the newline and leading whitespace
                i += 2
                while i < len(body) and body[i] in " \t\n":
                    i += 1
                continue
            out += {"n": "\n", '"': '"', "\\": "\\", "'": "'"}.get(nxt) or _bad_escape(nxt)
            i += 2
        else:
            out += body[i]
            i += 1
    return out


def _bad_escape(c):
    raise ExtractError("errors", f"unsupported escape \\{c} in display string")


def error_tables(repo: Path):
    src = strip_comments((repo / "src/eval/error.rs").read_text())
    m = re.search(r"pub enum Error\s*\{", src)
    if not m:
        raise ExtractError("errors", "enum Error not found")
    end = balanced(src, m.end() - 1, "{", "}")
    body = src[m.end():end - 1]
    variants = []
    i = 0
    while True:
        # skip whitespace
        while i < len(body) and body[i] in " \t\n,":
            i += 1
        if i >= len(body):
            break
        display = None
        while body.startswith("#[", i):
            j = balanced(body, i + 1, "[", "]")
            attr = body[i:j]
            mm = re.match(r"#\[snafu\(display\((.*)\)\)\]\Z", attr, re.S)
            if mm:
                display = mm.group(1)
            elif not attr.startswith("#[snafu("):
                raise ExtractError("errors", f"unknown attribute {attr[:40]}")
            i = j
            while body[i] in " \t\n":
                i += 1
        mm = re.match(r"([A-Z]\w*)", body[i:])
        if not mm:
            raise ExtractError("errors", f"variant name expected at {body[i:i+40]!r}")
        name = mm.group(1)
        i += len(name)
        fields = []
        while body[i] in " \t\n":
            i += 1
        if i < len(body) and body[i] == "{":
            j = balanced(body, i, "{", "}")
            for f in split_top(body[i + 1:j - 1]):
                f = re.sub(r"#\[snafu\(source\(from\(Error, Box::new\)\)\)\]", "", f).strip()
                if not f:
                    continue
                fm = re.match(r"(\w+)\s*:\s*(.+)\Z", f, re.S)
                if not fm:
                    raise ExtractError("errors", f"field not understood in {name}: {f!r}")
                fields.append((fm.group(1), " ".join(fm.group(2).split())))
            i = j
        variants.append({"name": name, "fields": fields, "display": display})
    # classify
    for v in variants:
        v["wrapper"] = any(t == "Box<Error>" for _, t in v["fields"])
        if v["display"] is not None:
            parts = split_top(v["display"])
            tmpl = rust_str_literal(parts[0])
            raw_args = [" ".join(a.split()) for a in parts[1:] if a.strip()]
            # `{}` / `{0}` / `{name}` with positional, named (`name = expr`) or captured arguments all say the same thing: bring
            # the template to the form "`{}` per argument, arguments in order of occurrence"
            pos, named = [], {}
            for a in raw_args:
                nm = re.match(r"([A-Za-z_]\w*)\s*=\s*(?!=)(.*)\Z", a, re.S)
                if nm:
                    named[nm.group(1)] = nm.group(2).strip()
                else:
                    pos.append(a)
            if "{{" in tmpl or "}}" in tmpl:
                raise ExtractError("errors", f"{v['name']}: escaped braces in a display template")
            args, nxt = [], 0

            def repl(m_):
                nonlocal nxt
                key = m_.group(1)
                if key == "":
                    if nxt >= len(pos):
                        raise ExtractError("errors", f"{v['name']}: template/argument mismatch")
                    args.append(pos[nxt])
                    nxt += 1
                elif key.isdigit():
                    if int(key) >= len(pos):
                        raise ExtractError("errors", f"{v['name']}: template/argument mismatch")
                    args.append(pos[int(key)])
                elif re.fullmatch(r"[A-Za-z_]\w*", key):
                    args.append(named.get(key, key))
                else:
                    raise ExtractError("errors", f"{v['name']}: unsupported placeholder {{{key}}}")
                return "{}"
            v["template"] = re.sub(r"\{([^{}:]*)\}", repl, tmpl)
            v["args"] = args
            if "{" in v["template"].replace("{}", ""):
                raise ExtractError("errors", f"{v['name']}: template/argument mismatch or unsupported placeholder")
    def table(fname, file, tname):
        body = fn_body(strip_comments((repo / file).read_text()), fname, tname)
        rows = []
        for pat, val in re.findall(r"((?:\w+::\w+(?:\([^)]*\)|\{[^}]*\})?\s*\|?\s*)+)=>\s*\"([^\"]*)\"", body):
            for c in re.findall(r"\w+::(\w+)", pat):
                rows.append((c, val))
        if len(set(c for c, _ in rows)) != len(rows) or not rows:
            raise ExtractError(tname, "table rows not understood")
        return rows
    type_diag = table("render_type", "src/eval/error.rs", "typeNameDiag")
    type_fn = table("render_type", "src/builtins/type_functions.rs", "typeNameFn")
    op_sym = table("op_symbol", "src/eval/error.rs", "opSymbol")
    variants.sort(key=lambda v: v["name"])          # a canonical order: regrouping the enum's variants changes nothing
    return dict(variants=variants, type_diag=type_diag, type_fn=type_fn, op_symbol=op_sym)


def renderer_tables(repo: Path, err):
    src = strip_comments((repo / "src/main.rs").read_text())
    body = fn_body_by_shape(src, "eval_err_to_stacktrace", r"match error \{.*EvalError::AtLoc\s*\{.*StacktracedErrorMsg", "peeled")
    m = re.search(r"match error \{", body)
    if not m:
        raise ExtractError("peeled", "match error { … } not found")
    end = balanced(body, m.end() - 1, "{", "}")
    # the arms are classified by SHAPE, wherever they stand: an arm that just forwards to the wrapped error with the same
    # `func` peels its variants; the default arm is the Display fallback; every other arm handles its variant itself
    peeled, handled, default_ok = [], [], False
    for pat, arm in match_arms(body[m.end():end - 1], "peeled"):
        flat = " ".join(arm.split())
        if pat == "_":
            default_ok = bool(re.search(r"StacktracedErrorMsg\s*\{\s*stacktrace: vec!\[\], msg: (?:format!\(\"\{error\}\"\)|error\.to_string\(\))", flat))
            continue
        alts = re.findall(r"EvalError::(\w+)\s*\{([^}]*)\}", pat)
        if not alts:
            raise ExtractError("peeled", f"unrecognised arm pattern {pat[:60]!r}")
        if re.fullmatch(r"\w+\(path, func, \*source\)", flat):           # the function's recursive call on the wrapped error
            for name, binds in alts:
                if not re.match(r"\s*source\s*(,\s*\.\.)?\s*\Z", binds):
                    raise ExtractError("peeled", f"{name}: pattern binds more than `source`")
                peeled.append((name, binds))
        else:
            handled += [name for name, _ in alts]
    if not peeled:
        raise ExtractError("peeled", "no arm forwards wrappers to `*source` with the same `func`")
    if not default_ok:
        raise ExtractError("peeled", "default arm is not the Display fallback")
    peeled.sort()
    handled.sort()
    names = {v["name"] for v in err["variants"]}
    for n in [p for p, _ in peeled] + handled:
        if n not in names:
            raise ExtractError("peeled", f"EvalError::{n} is not a variant")
    # message-line formats of main: used by the model's renderer, so they are pinned here
    main_body = fn_body(src, "main", "main")
    fmts = {
        "parse": 'format!("{ln}:{ch}: {msg}")' in main_body,
        "final": 'eprintln!("{raw_cur_rel_script_path}:{msg}")' in main_body,
        "exit": "process::exit(103)" in main_body,
        "trace": 'format!(\n                            "\\nStacktrace:\\n  {}",\n                            st.stacktrace.join("\\n  "),' in main_body,
        "atloc": body.count('st.msg = format!("{}:{}:{} {}", line, col, sep, st.msg);') == 2,
        "sep": body.count('format!(" in \'{f}\':")') == 2,
        "frame": 'st.stacktrace.push(format!("{p}:{line}:{col}: in \'{f}\'"));' in body,
        "root": 'func.unwrap_or("<root>")' in body,
        "unnamed": body.count('func_name.unwrap_or_else(|| "<unnamed function>".to_string())') == 2,
    }
    # the formats are recorded only: whether the text on stderr is right is decided by the correspondence, which compares it
    # in full on every error stream (a harmless rewrite of these statements must not break an obligation)
    bad = [k for k, ok in fmts.items() if not ok]
    return dict(peeled=[p for p, _ in peeled], handled=handled, format_statements_not_recognised=bad)


def typefn_tables(repo: Path):
    src = strip_comments((repo / "src/builtins/type_functions.rs").read_text())
    body = fn_body(src, "type_functions", "typeFns")
    rows = []
    for ns, inner in re.findall(r"(\w+): new_func_map\(vec!\[(.*?)\]\),", body, re.S):
        found = re.findall(r'\(\s*"(\w+)"\.to_string\(\),\s*value::new_built_in_func\("([^"]+)"\.to_string\(\), (\w+)\),\s*\)', inner)
        if len(found) != inner.count("new_built_in_func"):
            raise ExtractError("typeFns", f"namespace {ns}: entry not understood")
        for key, bname, fn in found:
            rows.append((ns, key, bname, fn))
    if not rows:
        # second shape: per-type constant tables of (name, function) registered through a helper that derives the built-in's
        # name as "<type>-><name>"
        consts = {cm.group(1): re.findall(r'\(\s*"(\w+)"\s*,\s*(\w+)\s*\)', cm.group(2))
                  for cm in re.finditer(r"\bconst\s+(\w+)\s*:[^=]*=\s*&\[(.*?)\]\s*;", src, re.S)}
        regs = re.findall(r'(\w+):\s*(\w+)\("(\w+)",\s*(\w+)\)', body)
        for ns, helper, ty, table in regs:
            try:
                hb = fn_body(src, helper, "typeFns")
            except ExtractError:
                continue
            if table not in consts or not re.search(r'format!\("\{(\w+)\}->\{(\w+)\}"\)', hb):
                raise ExtractError("typeFns", f"namespace {ns}: registration not understood")
            for key, fn in consts[table]:
                rows.append((ns, key, f"{ty}->{key}", fn))
    if not rows:
        raise ExtractError("typeFns", "no rows")
    return rows


LEAN_KIND = {"Null": "Null", "Bool": "Bool", "Int": "Int", "Str": "Str", "List": "List", "Object": "Object",
             "BuiltinFunc": "BuiltinFunc", "Func": "Func"}


def lean_field_name(n):
    return {"end": "stop", "from": "frm"}.get(n, n)


def emit_errors(err, rend, tfns):
    L = []
    def kind_fn(name, rows, doc):
        L.append(f"/-- {doc} -/")
        L.append(f"def {name} : Kind → List Char")
        seen = set()
        for c, val in rows:
            if c not in LEAN_KIND:
                raise ExtractError(name, f"unknown Value variant {c}")
            seen.add(c)
            L.append(f"  | .{LEAN_KIND[c]} => {lean_chars(val)}")
        if seen != set(LEAN_KIND):
            raise ExtractError(name, f"kinds not covered: {set(LEAN_KIND) - seen}")
        L.append("")
    kind_fn("typeNameDiag", err["type_diag"], "`render_type` of src/eval/error.rs (type names in diagnostics)")
    kind_fn("typeNameFn", err["type_fn"], "`render_type` of src/builtins/type_functions.rs (what `->type()` returns)")
    L.append("/-- `op_symbol` of src/eval/error.rs -/")
    L.append("def opSymbol : BinaryOp → List Char")
    for c, val in err["op_symbol"]:
        L.append(f"  | .{c} => {lean_chars(val)}")
    L.append("")
    leaves = [v for v in err["variants"] if not v["wrapper"]]
    L.append("/-- the non-wrapper variants of `Error` (src/eval/error.rs), with their fields; a `Value` field is kept as its kind,")
    L.append("    which is all the display templates use -/")
    L.append("inductive Leaf where")
    for v in leaves:
        fs = []
        for fname, ftype in v["fields"]:
            if ftype not in FIELD_TYPES:
                raise ExtractError("errors", f"{v['name']}.{fname}: unknown field type {ftype}")
            fs.append(f"({lean_field_name(fname)} : {FIELD_TYPES[ftype]})")
        L.append(f"  | {v['name']} " + " ".join(fs))
    L.append("")
    L.append("def Leaf.name : Leaf → List Char")
    for v in leaves:
        L.append(f"  | .{v['name']}" + " _" * len(v["fields"]) + f" => {lean_chars(v['name'])}")
    L.append("")
    L.append("/-- `Display` of a non-wrapper variant: its `#[snafu(display(…))]` template filled in -/")
    L.append("def Leaf.msg : Leaf → List Char")
    for v in leaves:
        binders = " ".join(lean_field_name(f) for f, _ in v["fields"])
        types = dict(v["fields"])
        if v["display"] is None:
            expr = lean_chars(v["name"])
            binders = " ".join("_" for _ in v["fields"])
        else:
            pieces = v["template"].split("{}")
            used = set()
            terms = []
            for k, piece in enumerate(pieces):
                if piece:
                    terms.append(lean_chars(piece))
                if k < len(v["args"]):
                    a = v["args"][k]
                    mm = re.match(r"(render_type|op_symbol)\((\w+)\)\Z", a)
                    if mm:
                        f = mm.group(2)
                        fn = {"render_type": "typeNameDiag", "op_symbol": "opSymbol"}[mm.group(1)]
                        want = {"render_type": "Value", "op_symbol": "BinaryOp"}[mm.group(1)]
                        if types.get(f) != want:
                            raise ExtractError("errors", f"{v['name']}: {a} applied to a field of type {types.get(f)}")
                        terms.append(f"{fn} {lean_field_name(f)}")
                    elif re.match(r"\w+\Z", a) and a in types:
                        f = a
                        t = types[f]
                        if t in ("String", "FromUtf8Error"):
                            terms.append(lean_field_name(f))
                        elif t == "usize":
                            terms.append(f"natToChars {lean_field_name(f)}")
                        elif t == "i64":
                            terms.append(f"intToChars {lean_field_name(f)}")
                        else:
                            raise ExtractError("errors", f"{v['name']}: cannot display field {f} of type {t}")
                    else:
                        raise ExtractError("errors", f"{v['name']}: unknown display argument `{a}`")
                    used.add(f)
            binders = " ".join((lean_field_name(f) if f in used else "_") for f, _ in v["fields"])
            expr = " ++ ".join(terms) if terms else "[]"
        L.append(f"  | .{v['name']} {binders} => {expr}".replace("  =>", " =>"))
    L.append("")
    L.append("/-- variants whose `source` is another `Error` (context wrappers) -/")
    L.append("def wrapperVariants : List (List Char) := [")
    L.append(",\n".join(f"  {lean_chars(v['name'])}" for v in err["variants"] if v["wrapper"]))
    L.append("]\n")
    L.append("/-- wrappers the CLI renderer (`eval_err_to_stacktrace`) looks through -/")
    L.append("def peeledVariants : List (List Char) := [")
    L.append(",\n".join(f"  {lean_chars(n)}" for n in rend["peeled"]))
    L.append("]\n")
    L.append("/-- wrappers the renderer gives an arm of their own (position / call-frame carriers) -/")
    L.append("def handledVariants : List (List Char) := [")
    L.append(",\n".join(f"  {lean_chars(n)}" for n in rend["handled"]))
    L.append("]\n")
    L.append("/-- type functions: (namespace, property name, builtin's name, Rust function) -/")
    L.append("def typeFnTable : List (List Char × List Char × List Char × List Char) := [")
    L.append(",\n".join(f"  ({lean_chars(a)}, {lean_chars(b)}, {lean_chars(c)}, {lean_chars(d)})" for a, b, c, d in tfns))
    L.append("]\n")
    return "\n".join(L)


# --------------------------------------------------------------------------- determinism
def determinism_tables(repo: Path):
    """places where a hash-ordered collection is iterated, and every use of the environment / file system.  A site is
    described by file, enclosing function, collection type and method — not by the variable's name."""
    sites = []
    for fp in sorted((repo / "src").rglob("*.rs")):
        if fp.name == "verif_hooks.rs":
            continue
        src = strip_comments(fp.read_text())
        names = {}
        for m in re.finditer(r"(\w+)\s*:\s*&?(?:mut\s+)?Hash(Map|Set)<", src):
            names[m.group(1)] = "Hash" + m.group(2)
        for m in re.finditer(r"let\s+(?:mut\s+)?(\w+)\s*=\s*Hash(Map|Set)::", src):
            names[m.group(1)] = "Hash" + m.group(2)
        for m in re.finditer(r"let\s+(?:mut\s+)?(\w+)\s*=[^;]*?collect::<Hash(Set|Map)<", src, re.S):
            names[m.group(1)] = "Hash" + m.group(2)
        if re.search(r"pub type Scope = HashMap<", src):
            for n in ("cur_scope", "unlocked_scope", "scope"):
                names[n] = "HashMap"

        def enclosing(pos):
            fn = "<top>"
            for m in re.finditer(r"\bfn\s+(\w+)", src[:pos]):
                fn = m.group(1)
            return fn
        for n, ty in sorted(names.items()):
            for m in re.finditer(r"\b" + n + r"\s*\.\s*(iter|iter_mut|keys|values|values_mut|drain|into_iter|retain)\s*\(", src):
                tail = src[m.end():m.end() + 400]
                sink = "BTreeMap" if re.search(r"let \w+: BTreeMap<", src[max(0, m.start() - 200):m.start()]) and ".collect()" in tail else "?"
                sites.append(f"{fp.name}:{enclosing(m.start())}:{ty}.{m.group(1)}->{sink}")
            for m in re.finditer(r"for\s+[^\n]*?\sin\s+&?(?:mut\s+)?" + n + r"\b\s*\{", src):
                sites.append(f"{fp.name}:{enclosing(m.start())}:for-in {ty}")
    env = []
    for fp in sorted((repo / "src").rglob("*.rs")):
        if fp.name == "verif_hooks.rs":
            continue
        src = strip_comments(fp.read_text())
        for m in re.finditer(r"\b(?:std::)?(env|fs|process|time|thread|net)::(\w+)", src):
            if m.group(2) in ("Error",):
                continue
            # `use std::env;` style imports are not uses
            line_start = src.rfind("\n", 0, m.start()) + 1
            if src[line_start:m.start()].strip().startswith("use"):
                continue
            # a type mentioned in a signature (`env::Args`, `process::ExitCode`) is not a use; an associated function of a
            # type (`fs::File::open`) is.  Which FILE the use stands in is not recorded: code may move between modules.
            if m.group(2)[0].isupper() and not src[m.end():].lstrip().startswith("::"):
                continue
            env.append(f"{m.group(1)}::{m.group(2)}")
    return dict(hash_iter_sites=sorted(set(sites)), env_uses=sorted(set(env)))


def emit_determinism(d):
    L = ["/-- every iteration over a hash-ordered collection in src/ (file:variable.method->sink) -/",
         "def hashIterSites : List (List Char) := ["]
    L.append(",\n".join(f"  {lean_chars(x)}" for x in d["hash_iter_sites"]))
    L.append("]\n")
    L.append("/-- every use of the process environment, file system, clock, threads or network in src/ -/")
    L.append("def envUses : List (List Char) := [")
    L.append(",\n".join(f"  {lean_chars(x)}" for x in d["env_uses"]))
    L.append("]\n")
    return "\n".join(L)


# ---------------------------------------------------------------------------- binary operators of the evaluator
VALUE_KIND = {"Null": "Null", "Bool": "Bool", "Int": "Int", "Str": "Str", "List": "List", "Object": "Object",
              "BuiltinFunc": "BuiltinFunc", "Func": "Func"}


def match_arms(text, table):
    """the arms of a `match … { … }` body: [(pattern text, body text)] (brace- and string-aware)"""
    arms, i, n = [], 0, len(text)
    while i < n:
        while i < n and text[i] in " \t\n,":
            i += 1
        if i >= n:
            break
        j = text.find("=>", i)
        if j < 0:
            raise ExtractError(table, f"match arm without `=>`: {text[i:i + 60]!r}")
        pat = text[i:j].strip()
        k = j + 2
        while k < n and text[k] in " \t\n":
            k += 1
        if k < n and text[k] == "{":
            e = balanced(text, k, "{", "}")
            body = text[k + 1:e - 1]
        else:
            e = k
            depth = 0
            while e < n and not (text[e] == "," and depth == 0):
                depth += text[e] in "([{"
                depth -= text[e] in ")]}"
                e += 1
            body = text[k:e]
        arms.append((" ".join(pat.split()), body))
        i = e
    return arms


def fn_body_by_shape(src: str, name: str, shape: str, table: str) -> str:
    """the body of function `name`; if no function has that name (it was renamed), the body of the ONE function whose body
    matches the regular expression `shape`"""
    try:
        b = fn_body(src, name, table)
        if re.search(shape, b, re.S):
            return b
    except ExtractError:
        pass
    found = []
    for m in re.finditer(r"\bfn\s+(\w+)\s*[(<]", src):
        try:
            b = fn_body(src, m.group(1), table)
        except ExtractError:
            continue
        if re.search(shape, b, re.S):
            found.append((m.group(1), b))
    # nested helper closures / inner functions repeat their outer function's text: keep the innermost (shortest) body
    found.sort(key=lambda t: len(t[1]))
    if len(found) >= 1 and all(found[0][1] in f[1] for f in found):
        return found[0][1]
    raise ExtractError(table, f"function `{name}` not found, and {len(found)} functions have its shape")


def eval_src(repo: Path) -> str:
    """the evaluator's source as one text: every file under src/eval (and src/builtins), comments stripped — functions are
    looked up in it by name or shape, so moving one to another file of the evaluator changes nothing"""
    parts = []
    for sub in ("src/eval", "src/builtins"):
        for fp in sorted((repo / sub).rglob("*.rs")):
            parts.append(strip_comments(fp.read_text()))
    return "\n".join(parts)


def binop_tables(repo: Path):
    """`apply_binary_operation`: for every operator the operand-kind pairs it has an arm for, and the integer / boolean
    primitive each arm uses.  Any arm shape that is not recognised (a guard, a wildcard on one side, a new delegate) is an
    extraction error, so that it cannot silently fall outside the table."""
    T = "binop_arms"
    src = eval_src(repo)
    body = fn_body_by_shape(src, "apply_binary_operation", r"\bmatch op \{.*BinaryOp::Sum.*checked_add", T)
    m = re.search(r"\bmatch op \{", body)
    if not m:
        raise ExtractError(T, "`match op {` not found")
    end = balanced(body, m.end() - 1, "{", "}")
    arms = {}
    prims = {}
    delegates = {}
    for pat, arm in match_arms(body[m.end():end - 1], T):
        ops = [p.strip() for p in pat.split("|")]
        if not all(re.fullmatch(r"BinaryOp::\w+", o) for o in ops):
            raise ExtractError(T, f"operator pattern not a list of BinaryOp variants: {pat!r}")
        ops = [o.split("::")[1] for o in ops]
        a = arm.strip()
        # an arm that hands both operands to `eq` / `ref_eq` (however the result is then taken apart: `match`, `if let`, …)
        if not re.search(r"match \(lhs, rhs\)", a):
            # which function it is is decided by what that function IS (its shape), not by its name
            dm = re.search(r"(?<![\w:.])(\w+)\(lhs, rhs\)", a)
            role = None
            if dm:
                try:
                    cb = fn_body(src, dm.group(1), T)
                    role = ("eq" if re.search(r"Value::Null\s*,\s*Value::Null", cb) else
                            "ref_eq" if re.search(r"_\s*=>\s*None", cb) and "Value::Null" not in cb else None)
                except ExtractError:
                    role = None
            if role == "eq":
                for o in ops:
                    delegates[o] = "eq"
                continue
            if role == "ref_eq":
                if "new_invalid_op_types()" not in a:
                    raise ExtractError(T, "ref_eq arm without the invalid-types fallback")
                for o in ops:
                    delegates[o] = "ref_eq"
                continue
        mm = re.match(r"match \(lhs, rhs\) \{", a)
        if not mm:
            raise ExtractError(T, f"operator arm for {ops} is neither a delegate nor `match (lhs, rhs)`: {a[:80]!r}")
        e2 = balanced(a, mm.end() - 1, "{", "}")
        if a[e2:].strip():
            raise ExtractError(T, f"text after the operand match of {ops}: {a[e2:e2 + 60]!r}")
        pairs = []
        saw_default = False
        for ipat, ibody in match_arms(a[mm.end():e2 - 1], T):
            if ipat == "_":
                if " ".join(ibody.split()) != "Err(new_invalid_op_types())":
                    raise ExtractError(T, f"default operand arm of {ops} is not the invalid-types error: {ibody[:80]!r}")
                saw_default = True
                continue
            pm = re.fullmatch(r"\(Value::(\w+)\((\w+)\), Value::(\w+)\((\w+)\)\)", ipat)
            if not pm or pm.group(1) not in VALUE_KIND or pm.group(3) not in VALUE_KIND:
                raise ExtractError(T, f"operand pattern of {ops} not of the form (Value::K(a), Value::K(b)): {ipat!r}")
            if saw_default:
                raise ExtractError(T, f"operand arm after the default arm of {ops}")
            kl, kr = VALUE_KIND[pm.group(1)], VALUE_KIND[pm.group(3)]
            pairs.append((kl, kr))
            # primitives: per operator when the arm dispatches on `op` again, else for every operator of the group
            sub = re.search(r"match op \{", ibody)
            per_op = {}
            if sub:
                se = balanced(ibody, sub.end() - 1, "{", "}")
                for spat, sbody in match_arms(ibody[sub.end():se - 1], T):
                    if spat == "_":
                        if "panic!" not in sbody:
                            raise ExtractError(T, f"default arm of the inner `match op` of {ops} is not a panic")
                        continue
                    so = [x.strip() for x in spat.split("|")]
                    if not all(re.fullmatch(r"BinaryOp::\w+", x) for x in so):
                        raise ExtractError(T, f"inner operator pattern: {spat!r}")
                    for x in so:
                        per_op[x.split("::")[1]] = sbody
                if set(per_op) != set(ops):
                    raise ExtractError(T, f"inner `match op` of {ops} covers {sorted(per_op)}")
            else:
                per_op = {o: ibody for o in ops}
            for o, b in per_op.items():
                found = []
                found += [f"{x}(b)" for x in re.findall(r"\ba\.((?:checked|wrapping|saturating|overflowing)_\w+)\(\*b\)", b)]
                found += [f"a {x} b" for x in re.findall(r"\ba (>=|<=|>|<) b\b", b)]
                found += [f"a {x} b" for x in re.findall(r"\*a (&&|\|\|) \*b", b)]
                if re.search(r"\*b == 0", b):
                    found.append("b == 0 -> overflow")
                if re.search(r"\.concat\(\)|\.extend\(|\.extend_from_slice\(|\.append\(|\.chain\(", b):   # one way or another: the two sequences joined
                    found.append("concat")
                # any other arithmetic / bit operator applied in the arm (a hand-written shortcut next to the primitive)
                plain = re.sub(r"\*(a|b|lhs|rhs)\b", r"\1", b)
                for x in re.findall(r"[\w)\]]\s*(<<|>>|&&|\|\||[-+*/%&|^])\s*[\w(\[]", plain):
                    if x in ("&&", "||") and f"a {x} b" in found:
                        continue
                    found.append(f"raw {x}")
                if not found:
                    raise ExtractError(T, f"no recognised primitive in the ({kl}, {kr}) arm of {o}")
                prims[(o, kl, kr)] = found
        if not saw_default:
            raise ExtractError(T, f"operand match of {ops} has no default arm")
        for o in ops:
            arms[o] = pairs
    return dict(arms=arms, prims={f"{o}:{kl}:{kr}": v for (o, kl, kr), v in prims.items()}, delegates=delegates)


def eq_tables(repo: Path):
    """the operand-kind arms of `eq` (every other pair is the type error) and of `ref_eq` (every other pair is None)"""
    T = "eq_arms"
    src = eval_src(repo)
    out = {}
    for fn, default_re in (("eq", r"Err\(\( String::new\(\), error::render_type\(lhs\), error::render_type\(rhs\), \)\)"),
                           ("ref_eq", r"None")):
        shape = (r"\bmatch \(lhs, rhs\) \{.*Value::Null, Value::Null" if fn == "eq" else
                 r"\bmatch \(lhs, rhs\) \{(?:(?!Value::Null).)*Value::List\(\w+\), Value::List\(\w+\)(?:(?!Value::Null).)*_\s*=>\s*None")
        body = fn_body_by_shape(src, fn, shape, T)
        m = re.search(r"\bmatch \(lhs, rhs\) \{", body)
        if not m:
            raise ExtractError(T, f"`match (lhs, rhs)` not found in `{fn}`")
        end = balanced(body, m.end() - 1, "{", "}")
        if body[end:].strip():
            raise ExtractError(T, f"text after the operand match of `{fn}`")
        pairs, saw_default = [], False
        for pat, arm in match_arms(body[m.end():end - 1], T):
            if pat == "_":
                if not re.fullmatch(default_re, " ".join(arm.split())):
                    raise ExtractError(T, f"default arm of `{fn}` is not the expected rejection: {arm[:80]!r}")
                saw_default = True
                continue
            pm = re.fullmatch(r"\(Value::(\w+)(?:\((\w+)\))?, Value::(\w+)(?:\((\w+)\))?\)", pat)
            if not pm or pm.group(1) not in VALUE_KIND or pm.group(3) not in VALUE_KIND or saw_default:
                raise ExtractError(T, f"operand pattern of `{fn}` not of the form (Value::K(a), Value::K(b)): {pat!r}")
            pairs.append((VALUE_KIND[pm.group(1)], VALUE_KIND[pm.group(3)]))
        if not saw_default:
            raise ExtractError(T, f"`{fn}` has no default arm")
        out[fn] = pairs
    return out


def emit_eq(e):
    L = []
    for fn, name, doc in (("eq", "eqArms", "`eq`: operand-kind pairs with an arm (every other pair is the type error naming both kinds)"),
                          ("ref_eq", "refEqArms", "`ref_eq`: operand-kind pairs with an arm (every other pair is rejected)")):
        L.append(f"/-- {doc} -/")
        L.append(f"def {name} : List (Kind × Kind) := [" + ", ".join(f"(Kind.{a}, Kind.{b})" for a, b in e[fn]) + "]\n")
    return "\n".join(L)


def emit_binops(b):
    L = ["/-- `apply_binary_operation`: operand-kind pairs each operator has an arm for (every other pair is InvalidOpTypes) -/",
         "def binopArms : List (BinaryOp × List (Kind × Kind)) := ["]
    L.append(",\n".join("  (BinaryOp.%s, [%s])" % (o, ", ".join(f"(Kind.{a}, Kind.{c})" for a, c in ps)) for o, ps in b["arms"].items()))
    L.append("]\n")
    L.append("/-- operators that hand both operands to another function (`eq`, `ref_eq`) -/")
    L.append("def binopDelegates : List (BinaryOp × List Char) := [")
    L.append(",\n".join(f"  (BinaryOp.{o}, {lean_chars(d)})" for o, d in b["delegates"].items()))
    L.append("]\n")
    L.append("/-- the host primitive(s) each arm computes with: `op:kind:kind` ↦ primitives in source order -/")
    L.append("def binopPrims : List (List Char × List (List Char)) := [")
    L.append(",\n".join("  (%s, [%s])" % (lean_chars(k), ", ".join(lean_chars(x) for x in v)) for k, v in b["prims"].items()))
    L.append("]\n")
    return "\n".join(L)


# ---------------------------------------------------------------------------- places where the host code can panic
PANIC_KINDS = [("panic", r"\bpanic!\s*\("), ("unwrap", r"(?<!lock\(\))\.unwrap\(\)"), ("expect", r"(?<!lock\(\))\.expect\("), ("unreachable", r"\bunreachable!\s*\("),
               ("todo", r"\b(?:todo|unimplemented)!\s*\("), ("assert", r"\b(?:debug_)?assert(?:_eq|_ne)?!\s*\("),
               ("lock", r"\block_deref!\s*\(|\.try_lock\(\)|\.lock\(\)")]
# (indexing, unchecked arithmetic and narrowing casts can panic too; they are far too common in harmless edits to pin down
#  syntactically and are left to the correspondence: the extreme-value and alias streams of C02)


def panic_tables(repo: Path):
    """every place of src/ (hooks and test modules excluded) with an explicit way to panic in the host language — panic!,
    unwrap / expect, unreachable!/todo!, assertions, lock acquisition — counted per (file, function, kind).  The model's
    crash sites and the WF invariant of G4 were written against exactly this list."""
    rows = {}
    for fp in sorted((repo / "src").rglob("*.rs")):
        if fp.name == "verif_hooks.rs":
            continue
        text = strip_comments(fp.read_text())
        cut = text.find("#[cfg(test)]")
        if cut >= 0:
            text = text[:cut]
        # drop string literals and attributes (their brackets are not indexing)
        text = re.sub(r'"(?:[^"\\\n]|\\.)*"', '""', text)
        text = re.sub(r"#!?\[[^\n]*\]", "", text)
        text = re.sub(r"\s*\n\s*\.", ".", text)          # a method chain broken over lines is one chain (`.try_lock()` / `.unwrap()`)
        cur = "<top>"
        for line in text.split("\n"):
            m = re.search(r"\bfn\s+(\w+)", line)
            if m:
                cur = m.group(1)
            for kind, rx in PANIC_KINDS:
                n = len(re.findall(rx, line))
                if n:
                    key = (str(fp.relative_to(repo / "src")), cur, kind)
                    rows[key] = rows.get(key, 0) + n
    return [f"{f}:{fn}:{k}={n}" for (f, fn, k), n in sorted(rows.items())]


def panic_totals(rows):
    """the explicit panics of src/ per KIND, over the whole source (where a site lives — file, function — is not part of the
    obligation: moving code between functions or files, or wrapping repeated lock-and-clone sequences into helpers, is
    harmless; lock acquisitions are therefore left out of the totals, the alias streams of C02 exercise them)"""
    tot = {k: 0 for k, _ in PANIC_KINDS if k != "lock"}
    for r in rows:
        kind, n = r.rsplit(":", 1)[1].split("=")
        if kind in tot:
            tot[kind] += int(n)
    return [f"{k}={n}" for k, n in sorted(tot.items())]


def emit_panics(rows):
    # (where the sites are — file, function — goes to tables.json and the evidence, not into the model: it changes whenever
    # code is moved)
    L = []
    L += ["/-- explicit panics of src/ per kind, whole source (lock acquisitions not counted) -/",
          "def panicTotals : List (List Char) := ["]
    L.append(",\n".join(f"  {lean_chars(x)}" for x in panic_totals(rows)))
    L.append("]\n")
    return "\n".join(L)


# ---------------------------------------------------------------------------- which expression kinds can be bound
def bind_reject_tables(repo: Path):
    """the `RawExpr::K… => new_invalid_bind_error("…")` arms of the binder (`bind_next`) and of the parameter validator
    (`validate_args`): the expression kinds that are rejected as binding targets, with the description the diagnostic uses.
    Located by shape: any function containing such arms."""
    out = {}
    for fp in sorted((repo / "src/eval").rglob("*.rs")):
        rel = str(fp.relative_to(repo))
        src = strip_comments(fp.read_text())
        for m in re.finditer(r"\bfn\s+(\w+)\s*[(<]", src):
            try:
                body = fn_body(src, m.group(1), "bind_rejects")
            except ExtractError:
                continue
            rows = re.findall(r"RawExpr::(\w+)(?:\{[^}]*\})?\s*=>\s*(?:return\s+)?new_invalid_bind_error\(\"((?:[^\"\\]|\\.)*)\"\)", body)
            if rows and "fn new_invalid_bind_error" not in body:
                n_calls = len(re.findall(r"new_invalid_bind_error\(\"", body))
                if n_calls != len(rows):
                    raise ExtractError("bind_rejects", f"{rel}: {n_calls} rejections in `{m.group(1)}` but {len(rows)} recognised arms")
                # the parameter validator is the one that is not part of the binder (`bind_…`); which file either lives in
                # does not matter
                key = "bind.rs" if "bind" in m.group(1) else "mod.rs"
                if key in out:
                    raise ExtractError("bind_rejects", f"{rel}: more than one function with binding rejections")
                out[key] = rows
    if set(out) != {"bind.rs", "mod.rs"}:
        raise ExtractError("bind_rejects", f"rejection arms found in {sorted(out)}, expected the binder and the parameter validator")
    return out


def emit_bind_rejects(t):
    L = []
    for key, name, doc in (("bind.rs", "bindRejects", "expression kinds the binder rejects as targets, with the diagnostic's description"),
                           ("mod.rs", "paramRejects", "expression kinds the parameter validator rejects, with the description")):
        L.append(f"/-- {doc} -/")
        L.append(f"def {name} : List (List Char × List Char) := [")
        L.append(",\n".join(f"  ({lean_chars(k)}, {lean_chars(d)})" for k, d in t[key]))
        L.append("]\n")
    return "\n".join(L)


# ---------------------------------------------------------------------------- what `for` can iterate over
def iterable_tables(repo: Path):
    """the value kinds the `for` statement can walk: the arms of the function that turns a value into [key, value] pairs
    (located by shape: a function whose body is one `match` on a value with `Value::K(..)` arms building pairs and a
    rejecting default)"""
    src = eval_src(repo)
    found = []
    for m in re.finditer(r"\bfn\s+(\w+)\s*\([^)]*\)\s*->\s*Result<Vec<\(SourcedValue, SourcedValue\)>>", src):
        body = fn_body(src, m.group(1), "iterables")
        mm = re.search(r"\bmatch \w+ \{", body)
        if not mm:
            continue
        end = balanced(body, mm.end() - 1, "{", "}")
        kinds, default = [], False
        for pat, arm in match_arms(body[mm.end():end - 1], "iterables"):
            if pat == "_":
                default = "Err(" in arm or "new_loc_err" in arm or "Err::<" in arm
                continue
            pm = re.fullmatch(r"Value::(\w+)(?:\((\w+)\)|\{[^}]*\})?", pat)
            if not pm or pm.group(1) not in VALUE_KIND:
                raise ExtractError("iterables", f"arm pattern not `Value::K(x)`: {pat!r}")
            kinds.append(VALUE_KIND[pm.group(1)])
        if not default:
            raise ExtractError("iterables", f"`{m.group(1)}` has no rejecting default arm")
        found.append(kinds)
    if len(found) != 1:
        raise ExtractError("iterables", f"expected exactly one value-to-pairs function, found {len(found)}")
    return found[0]


def emit_iterables(kinds):
    return ("/-- value kinds `for` can iterate over (every other kind is the `for` type error) -/\n"
            "def iterableKinds : List Kind := [" + ", ".join(f"Kind.{k}" for k in kinds) + "]\n")


def extend(repo: Path, tables):
    det = determinism_tables(repo)
    tables["determinism"] = det
    tables.setdefault("extra_lean", []).append(emit_determinism(det))
    err = error_tables(repo)
    rend = renderer_tables(repo, err)
    tfns = typefn_tables(repo)
    tables["errors"] = err
    tables["renderer"] = rend
    tables["typefns"] = tfns
    tables.setdefault("extra_imports", []).append("import SeedModel.Base")
    tables.setdefault("extra_lean", []).append(emit_errors(err, rend, tfns))
    gr = grammar_tables(repo)
    tables["grammar"] = gr
    tables.setdefault("extra_imports", []).append("import SeedModel.Ast")
    tables.setdefault("extra_lean", []).append(emit_grammar(gr))
    bo = binop_tables(repo)
    tables["binops_eval"] = bo
    tables.setdefault("extra_lean", []).append(emit_binops(bo))
    ps = panic_tables(repo)
    tables["panic_sites"] = ps
    tables.setdefault("extra_lean", []).append(emit_panics(ps))
    br = bind_reject_tables(repo)
    tables["bind_rejects"] = br
    tables.setdefault("extra_lean", []).append(emit_bind_rejects(br))
    it = iterable_tables(repo)
    tables["iterables"] = it
    tables.setdefault("extra_lean", []).append(emit_iterables(it))
    eqt = eq_tables(repo)
    tables["eq_arms"] = eqt
    tables.setdefault("extra_lean", []).append(emit_eq(eqt))
