"""extract_more.py — further tables (grammar tiers, error templates, renderer peel list, type names)."""
import re
from pathlib import Path
from extract import ExtractError, strip_comments, fn_body, lean_chars


def grammar_tables(repo: Path):
    g = strip_comments((repo / "src/parser.lalrpop").read_text())
    # terminal spelling -> Token constructor
    m = re.search(r"enum Token \{(.*?)\n    \}", g, re.S)
    if not m:
        raise ExtractError("grammar_terminals", "extern enum Token not found")
    terms = dict(re.findall(r'"([^"]+)"\s*=>\s*Token::(\w+)', m.group(1)))
    # tier chain
    chain = re.findall(r"pub ExprPrecedence(\d)\s*=\s*ExprTier<ExprOp(\d),\s*ExprPrecedence(\d)>;", g)
    if not chain:
        raise ExtractError("tiers", "no ExprTier chain found")
    ops = []
    for lvl, opn, nxt in chain:
        if lvl != opn or int(nxt) != int(lvl) + 1:
            raise ExtractError("tiers", f"unexpected chain element ExprPrecedence{lvl} = ExprTier<ExprOp{opn}, ExprPrecedence{nxt}>")
        mm = re.search(r"pub ExprOp" + opn + r": BinaryOp = \{(.*?)\};", g, re.S)
        if not mm:
            raise ExtractError("tiers", f"ExprOp{opn} not found")
        rows = re.findall(r'"([^"]+)"\s*=>\s*BinaryOp::(\w+)', mm.group(1))
        if len(rows) != mm.group(1).count("=>"):
            raise ExtractError("tiers", f"ExprOp{opn}: unrecognised alternative")
        for sym, op in rows:
            if sym not in terms:
                raise ExtractError("tiers", f"terminal {sym!r} has no Token")
            ops.append((sym, terms[sym], op, int(lvl)))
    levels = sorted(int(l) for l, _, _ in chain)
    if levels != list(range(levels[0], levels[0] + len(levels))):
        raise ExtractError("tiers", f"tier levels not contiguous: {levels}")
    # ExprTier shape: left recursion, NextTier on the right
    mm = re.search(r"ExprTier<Op, NextTier>: RawExpr = \{(.*?)\n\}", g, re.S)
    if not mm or not re.search(r"<l:ExprTier<Op, NextTier>>\s*<op_loc:@L> <op:Op>\s*<r_loc:@L> <r:NextTier>", mm.group(1)):
        raise ExtractError("tiers", "ExprTier is not `l:ExprTier op r:NextTier` (left-recursive)")
    # range production: loosest, left operand Expr, right operand the first tier
    mm = re.search(r"pub ExprPrecedence1: RawExpr = \{(.*?)\n\}", g, re.S)
    if not mm or not re.search(r'<start:Expr> "\.\." <el:@L> <end:ExprPrecedence' + str(levels[0]) + r">", mm.group(1)):
        raise ExtractError("range", "range production is not `Expr .. ExprPrecedence<first tier>` in ExprPrecedence1")
    # postfix forms of the tightest level
    last = levels[-1] + 1
    mm = re.search(r"pub ExprPrecedence" + str(last) + r": RawExpr = \{(.*?)\n\}", g, re.S)
    if not mm:
        raise ExtractError("postfix", f"ExprPrecedence{last} not found")
    forms = []
    for alt in re.findall(r"<expr:ExprPrecedence" + str(last) + r">\s*\"([^\"]+)\"", mm.group(1)):
        forms.append(alt)
    postfix = []
    body = mm.group(1)
    for alt in re.finditer(r"<loc:@L> <expr:ExprPrecedence" + str(last) + r"> (.*?)=>\s*RawExpr::(\w+)\{([^}]*)", body, re.S):
        toks = re.findall(r'"([^"]+)"', alt.group(1))
        kind = alt.group(2)
        tp = "type_prop: true" in alt.group(3)
        postfix.append((toks[0], kind + ("T" if tp else "")))
    assign_ops = re.findall(r'<lhs:Expr> <op_loc:@L> "([^"]+)" <rhs:Expr> =>\s*Stmt::OpAssign\{lhs, op: BinaryOp::(\w+), op_loc, rhs\}', g)
    return dict(terminals=terms, binops=ops, tier_levels=levels, postfix=postfix,
                assign_ops=[(s, terms[s], op) for s, op in assign_ops])


def emit_grammar(gr):
    L = ["/-- binary operators: (token, operator, tier); tiers as ExprPrecedenceN, larger = tighter -/",
         "def binOps : List (Token × BinaryOp × Nat) := ["]
    L.append(",\n".join(f"  (Token.{tok}, BinaryOp.{op}, {lvl})" for _, tok, op, lvl in gr["binops"]))
    L.append("]\n")
    L.append(f"def firstTier : Nat := {gr['tier_levels'][0]}")
    L.append(f"def postfixTier : Nat := {gr['tier_levels'][-1] + 1}\n")
    L.append("/-- op-assignment tokens -/")
    L.append("def assignOps : List (Token × BinaryOp) := [")
    L.append(",\n".join(f"  (Token.{tok}, BinaryOp.{op})" for _, tok, op in gr["assign_ops"]))
    L.append("]\n")
    L.append("/-- opening token of each postfix form of the tightest tier -/")
    L.append("def postfixForms : List (Token × List Char) := [")
    L.append(",\n".join(f"  (Token.{gr['terminals'][t]}, {lean_chars(k)})" for t, k in gr["postfix"]))
    L.append("]\n")
    return "\n".join(L)


def extend(repo: Path, tables):
    gr = grammar_tables(repo)
    tables["grammar"] = gr
    tables.setdefault("extra_imports", []).append("import SeedModel.Ast")
    tables.setdefault("extra_lean", []).append(emit_grammar(gr))
